"""C01 C02 C06 C07 C13 C14 C19: Ledger.tla (MC_Ledger: MC + GEN by simulation; LedgerTrace: TV)."""
import json
import os
import random
import re
import subprocess
import time

import gen_ledger
from vlib import *

ALL_EDITS = ('{"forge_sig", "no_sig", "tamper_output", "type_fee", "type_atr", "type_issuance", "type_spv", '
             '"dup_input", "inflate_input", "phantom_input", "overspend", "wrap_outputs", "foreign_input", "spent_input", '
             '"zero_lead_foreign"}')
FEW_EDITS = '{"forge_sig", "foreign_input", "spent_input"}'
MC = {
    "quick": [dict(Keys='{"k1", "k2"}', G=2, MaxH=3, MaxBad=1, Edits=ALL_EDITS, PoolOps="FALSE",
                   GTChoices="{FALSE}", ScnLen=0),
              dict(Keys='{"k1", "k2"}', G=2, MaxH=2, MaxBad=1, Edits=FEW_EDITS, PoolOps="TRUE",
                   GTChoices="{FALSE}", ScnLen=0)],
    "thorough": [dict(Keys='{"k1", "k2"}', G=2, MaxH=4, MaxBad=1, Edits=ALL_EDITS, PoolOps="FALSE",
                      GTChoices="{FALSE}", ScnLen=0),
                 dict(Keys='{"k1", "k2"}', G=2, MaxH=2, MaxBad=1, Edits=ALL_EDITS, PoolOps="TRUE",
                      GTChoices="{FALSE}", ScnLen=0),
                 dict(Keys='{"k1", "k2"}', G=1, MaxH=2, MaxBad=1, Edits=FEW_EDITS, PoolOps="TRUE",
                      GTChoices="{FALSE}", ScnLen=0),
                 dict(Keys='{"k1", "k2"}', G=1, MaxH=4, MaxBad=1, Edits=FEW_EDITS, PoolOps="FALSE",
                      GTChoices="{FALSE}", ScnLen=0)],
}
SIM = {
    "quick": [dict(Keys='{"k1", "k2"}', G=2, MaxH=9, MaxBad=3, Edits=ALL_EDITS, PoolOps="TRUE",
                   GTChoices="{TRUE, FALSE}", ScnLen=10, num=40),
              dict(Keys='{"k1", "k2"}', G=3, MaxH=12, MaxBad=2, Edits=ALL_EDITS, PoolOps="FALSE",
                   GTChoices="{TRUE, FALSE}", ScnLen=12, num=25)],
    "thorough": [dict(Keys='{"k1", "k2"}', G=2, MaxH=9, MaxBad=3, Edits=ALL_EDITS, PoolOps="TRUE",
                      GTChoices="{TRUE, FALSE}", ScnLen=10, num=600),
                 dict(Keys='{"k1", "k2"}', G=3, MaxH=12, MaxBad=2, Edits=ALL_EDITS, PoolOps="FALSE",
                      GTChoices="{TRUE, FALSE}", ScnLen=12, num=400),
                 dict(Keys='{"k1", "k2"}', G=4, MaxH=14, MaxBad=3, Edits=ALL_EDITS, PoolOps="TRUE",
                      GTChoices="{TRUE, FALSE}", ScnLen=16, num=300)],
}
SIM_SAMPLE = {"quick": 700, "thorough": 12000}
RANDOM_N = {"quick": 500, "thorough": 8000}
INVS = ["NothingExpiredLingers", "SupplyConserved", "SpentStaysSpent", "NamesUnique", "PoolSpendsLive", "PoolNoShare"]

PROPS = ("C01", "C02", "C06", "C07", "C13", "C14", "C19")


def mc(wd, t):
    dist = gen_n = 0
    cov = {}
    for i, consts in enumerate(MC[t]):
        cfg = os.path.join(wd, "MC_Ledger_%d.cfg" % i)
        write_cfg(cfg, "Spec", consts, invariants=INVS)
        rc, out = tlc("MC_Ledger.tla", cfg, wd, workers=12, timeout=1500, extra=["-coverage", "1"], heap="12g")
        if not tlc_ok(out):
            raise ToolError("MC_Ledger[%d]: %s" % (i, tlc_error_summary(out)))
        d, g = tlc_stats(out)
        dist += d
        gen_n += g
        for k, v in action_coverage(out).items():
            cov[k] = cov.get(k, 0) + v
    for a in ("GoodBlock", "BadBlock", "DoubleSpendBlock", "SubmitGood", "SubmitConflict",
              "SubmitBad", "ConfirmPooled", "SubmitPartialConflict", "ForkBlocks"):
        if cov.get(a, 0) == 0:
            raise ToolError("MC_Ledger: action %s never taken" % a)
    return dist, gen_n, cov


def sim(wd, t, rnd):
    scns = []
    for i, c in enumerate(SIM[t]):
        c = dict(c)
        num = c.pop("num")
        cfg = os.path.join(wd, "MC_Ledger_sim%d.cfg" % i)
        write_cfg(cfg, "Spec", c, invariants=INVS + ["PrintScenario"])
        rc, out = tlc("MC_Ledger.tla", cfg, wd, workers=4, timeout=1200, heap="6g",
                      extra=["-simulate", "num=%d" % num, "-depth", str(c["ScnLen"] + 1), "-seed", str(seed() + i)])
        if "Error:" in out and "violated" in out:
            raise ToolError("MC_Ledger simulation found a model error: " + tlc_error_summary(out))
        s = printed(out, "SCN")
        log("MC_Ledger simulation %d: %d behaviours" % (i, len(s)))
        scns += s
    return sample(scns, SIM_SAMPLE[t], rnd)


def run_harness(binname, spath, tpath, extra=()):
    stalled = []
    skip = 0
    parts = []
    while True:
        part = tpath + ".%d" % len(parts)
        p = subprocess.run([hbin(binname), spath, part, "--skip", str(skip)] + list(extra),
                           stdout=subprocess.PIPE, stderr=subprocess.PIPE, text=True)
        parts.append(part)
        if p.returncode == 0:
            break
        if p.returncode == 3 and os.path.exists(part + ".stall"):
            lab = open(part + ".stall").read()
            k = int(lab.split()[1])
            stalled.append((k, lab))
            skip = k + 1
            continue
        raise ToolError("%s harness failed rc=%d: %s" % (binname, p.returncode, p.stderr[-2000:]))
    with open(tpath, "w") as out:
        for part in parts:
            with open(part) as f:
                lines = f.readlines()
            if os.path.exists(part + ".stall"):
                last_reset = max(i for i, ln in enumerate(lines) if '"ev":"Reset"' in ln)
                lines = lines[:last_reset]
            out.writelines(lines)
            os.remove(part)
    return stalled


def norm_why(w):
    w = re.sub(r" in [bxnsc][0-9_]+$", "", w)
    w = re.sub(r" in [bxn]\d+", "", w)
    w = re.sub(r":t\d+.*", "", w)
    w = re.sub(r":(atr:)?[gtbn]\d+.*", "", w)
    return w


def run(pid, t, replay=None):
    t0 = time.time()
    wd = workdir(pid)
    rnd = random.Random(seed())
    build_harness()
    dist = gen_n = 0
    cov = {}
    if replay:
        with open(replay) as f:
            scns = [json.load(f)["scenario"]]
    else:
        dist, gen_n, cov = mc(wd, t)
        log("MC_Ledger: %d distinct states" % dist)
        scns = sim(wd, t, rnd)
        scns += gen_ledger.scenarios(seed(), RANDOM_N[t])
    spath = os.path.join(wd, "scenarios.jsonl")
    with open(spath, "w") as f:
        for s in scns:
            f.write(json.dumps(s) + "\n")
    tpath = os.path.join(wd, "trace.ndjson")
    stalled = run_harness("ledger", spath, tpath)
    cfg = os.path.join(wd, "LedgerTrace.cfg")
    write_cfg(cfg, "TraceSpec", {}, invariants=["ReportBad"], postcondition="TraceDone")
    # cfg without CONSTANTS section
    txt = open(cfg).read().replace("CONSTANTS\n", "")
    open(cfg, "w").write(txt)
    chunks, nev = split_trace(tpath, wd, 6000)
    bad, consumed = validate_traces("LedgerTrace.tla", cfg, chunks, wd, par=8)
    log("TV: %d events in %d chunks, %d divergences (all properties)" % (consumed, len(chunks), len(bad)))
    skips = sum(1 for ln in open(tpath) if '"ev":"Skip"' in ln)
    aborted = sum(1 for ln in open(tpath) if '"ev":"Abort"' in ln)

    known = load_known()
    mine = [b for b in bad if b["prop"] == pid]
    by_scn = {}
    for b in mine:
        by_scn.setdefault(b["scn"], []).append(b)
    violations = []
    known_hits = []
    for k, lab in stalled:
        if pid in ("C04", "C07"):
            sig = dict(kind="stall", why="call did not return", res="")
            path = write_replay(pid, dict(property=pid, scenario=scns[k], divergences=[sig], note=lab))
            violations.append((sig, path))
    for k, bs in sorted(by_scn.items()):
        unmatched = []
        for b in bs:
            st = scns[k]["steps"][b["i"] - 1] if b["i"] > 0 else {}
            sig = dict(kind="trace", why=norm_why(b["why"]), res=b["res"], tag=str(st.get("tag", "")),
                       op=st.get("op", "genesis"))
            kf = match_known(pid, sig, known)
            if kf:
                known_hits.append(kf)
            else:
                unmatched.append(dict(sig, step=b["i"], detail=b["why"]))
        if unmatched:
            path = write_replay(pid, dict(property=pid, scenario=scns[k], divergences=unmatched, seed=seed(), tier=t))
            violations.append((unmatched[0], path))
    if aborted and not violations:
        raise ToolError("%d scenarios aborted in the runner itself (see Abort events in %s)" % (aborted, tpath))
    stats = scenario_stats(scns)
    coverage = dict(
        states=dist, transitions=gen_n, traces_validated_against_impl=len(scns) - len(stalled),
        evaluations=consumed, distinct_nontrivial=stats.get(pid, 0), rule=RULES[pid],
        samples=[scns[0], scns[-1]], exhaustive=False, skipped_steps=skips,
        mc_instance=MC[t], simulation_instances=SIM[t],
        action_counts=cov,
        divergences_this_property=len(mine), known_findings_matched=len(set(k["id"] for k in known_hits)),
        checker_cmd="tlc MC_Ledger.tla (MC exhaustive + -simulate GEN); harness/bin/ledger; tlc LedgerTrace.tla (TV)",
        trusted_base=["TLC 1.8.0", "harness projection (ledger_run.rs state())", "builder nodes using Block::create",
                      "transaction descriptions logged by construction (signer, signature validity, edit)"],
    )
    write_evidence(pid, t, "model_checking", coverage, ASSUMPTIONS, time.time() - t0, len(violations))
    return finish(pid, violations, known_hits)


ASSUMPTIONS = [
    "hashes injective, signatures unforgeable; a transaction's 'sigok' flag is known by construction",
    "honest blocks are produced by Block::create on a force-wound builder node",
    "amounts in scenarios stay below 2^63 except in the dedicated wrap-around edits",
    "NFT bound triples, staking and checkpoints are not exercised by these scenarios",
]
RULES = {
    "C01": "scenarios = behaviours of MC_Ledger (TLC -simulate, seeded) + seeded random economy scenarios; "
           "non-trivial = distinct scenario containing at least one adversarial transaction (edit catalogue, "
           "foreign / spent / duplicated input) offered in a block or to the pool",
    "C02": "same scenarios; non-trivial = distinct scenario with at least one fee-paying transaction or a golden "
           "ticket payout or a wrap-around edit",
    "C06": "same scenarios; non-trivial = distinct scenario with a block-level edit of the transaction list or header",
    "C07": "same scenarios; non-trivial = distinct scenario in which the node's own producer bundles a block",
    "C13": "same scenarios; non-trivial = distinct scenario whose chain grows past G+1 blocks (some output leaves the window)",
    "C14": "same scenarios; non-trivial = distinct scenario with at least two pool operations and a block",
    "C19": "same scenarios + the wallet family (the node's own wallet builds payments of nothing / one / half / everything / one more than "
           "everything, with and without fee, several before any is confirmed; its own blocks confirm them; peer payments; window wrap; restart); "
           "non-trivial = distinct scenario in which the node's key receives or spends an output",
}


def scenario_stats(scns):
    seen = set()
    c = {p: 0 for p in PROPS}
    for s in scns:
        key = json.dumps(s, sort_keys=True)
        if key in seen:
            continue
        seen.add(key)
        steps = s["steps"]
        tags = [str(st.get("tag", "")) for st in steps]
        if any(tg.startswith("bad:") for tg in tags):
            c["C01"] += 1
        txs = [tx for st in steps for tx in (st.get("txs") or ([st["tx"]] if st.get("tx") else []))]
        if any(tx.get("fee") for tx in txs) or any(st.get("gt") for st in steps) or any("wrap" in tg for tg in tags):
            c["C02"] += 1
        if any(st.get("bedit") for st in steps):
            c["C06"] += 1
        if any(st["op"] == "bundle" for st in steps):
            c["C07"] += 1
        nblocks = sum(1 for st in steps if st["op"] in ("block", "bundle") and not str(st.get("tag", "")).startswith(("bad", "bedit")))
        if nblocks + 1 > s.get("g", 100) + 1:
            c["C13"] += 1
        if sum(1 for st in steps if st["op"] in ("submit", "bundle")) >= 2:
            c["C14"] += 1
        nk = s.get("node_key", "k1")
        if any(tx.get("signer") == nk or any(o[0] == nk for o in tx.get("outs", [])) for tx in txs):
            c["C19"] += 1
    return c
