"""C16: FetchSched.tla (MC_FetchSched: MC exhaustive + liveness + -simulate GEN; FetchSchedTrace: TV)."""
import json
import os
import random
import time

from vlib import *
from chk_ledger import run_harness

SAFE = ["Bounded", "NoUnderflow", "NoDupFlight", "NoDupEntry", "Retries", "Ordered"]
MC = {
    "quick": [
        (dict(Batch=2, MaxRetries=1, Peers="{1, 2}", Hashes="{1, 2, 3}", TwoIds="FALSE", MaxAnn=1, MaxLen=0), SAFE, []),
        (dict(Batch=1, MaxRetries=1, Peers="{1, 2}", Hashes="{1, 2}", TwoIds="FALSE", MaxAnn=1, MaxLen=0), SAFE, ["Complete16"]),
        (dict(Batch=2, MaxRetries=1, Peers="{1}", Hashes="{1, 2}", TwoIds="TRUE", MaxAnn=2, MaxLen=0), SAFE, ["Complete16"]),
    ],
    "thorough": [
        (dict(Batch=2, MaxRetries=1, Peers="{1, 2}", Hashes="{1, 2, 3}", TwoIds="FALSE", MaxAnn=1, MaxLen=0), SAFE, []),
        (dict(Batch=2, MaxRetries=2, Peers="{1, 2}", Hashes="{1, 2, 3}", TwoIds="FALSE", MaxAnn=1, MaxLen=0), SAFE, []),
        (dict(Batch=1, MaxRetries=1, Peers="{1, 2}", Hashes="{1, 2}", TwoIds="FALSE", MaxAnn=2, MaxLen=0), SAFE, ["Complete16"]),
        (dict(Batch=2, MaxRetries=1, Peers="{1}", Hashes="{1, 2, 3}", TwoIds="TRUE", MaxAnn=2, MaxLen=0), SAFE, ["Complete16"]),
        (dict(Batch=1, MaxRetries=2, Peers="{1}", Hashes="{1, 2, 3}", TwoIds="FALSE", MaxAnn=2, MaxLen=0), SAFE, ["Complete16"]),
    ],
}
SIM = {
    "quick": [(dict(Batch=2, MaxRetries=1, Peers="{1, 2}", Hashes="{1, 2, 3, 4}", TwoIds="TRUE", MaxAnn=2, MaxLen=14), 60),
              (dict(Batch=1, MaxRetries=2, Peers="{1, 2, 3}", Hashes="{1, 2, 3}", TwoIds="FALSE", MaxAnn=2, MaxLen=12), 40)],
    "thorough": [(dict(Batch=2, MaxRetries=1, Peers="{1, 2}", Hashes="{1, 2, 3, 4}", TwoIds="TRUE", MaxAnn=2, MaxLen=14), 800),
                 (dict(Batch=1, MaxRetries=2, Peers="{1, 2, 3}", Hashes="{1, 2, 3}", TwoIds="FALSE", MaxAnn=2, MaxLen=12), 600),
                 (dict(Batch=3, MaxRetries=2, Peers="{1, 2}", Hashes="{1, 2, 3, 4, 5, 6}", TwoIds="TRUE", MaxAnn=2, MaxLen=20), 600)],
}
SIM_SAMPLE = {"quick": 1500, "thorough": 25000}


def random_scenarios(rnd, n):
    """beyond the TLC universe: more peers/hashes, larger batch, long failing runs that exhaust the
    real retry bound (500)"""
    out = []
    for k in range(n):
        batch = rnd.choice([1, 2, 3, 5])
        steps = []
        npeers = rnd.randint(1, 3)
        hashes = list(range(1, rnd.randint(3, 12)))
        inflight = set()
        for _ in range(rnd.randint(10, 60)):
            r = rnd.random()
            if r < 0.3:
                x = rnd.choice(hashes)
                steps.append(dict(op="announce", peer=rnd.randint(1, npeers), hash=x,
                                  id=(x + 1) // 2 + (1 if rnd.random() < 0.1 else 0)))
            elif r < 0.45:
                steps.append(dict(op="build"))
            elif r < 0.7:
                steps.append(dict(op="select"))
            elif r < 0.8:
                steps.append(dict(op="fetched", hash=rnd.choice(hashes)))
            elif r < 0.9:
                x = rnd.choice(hashes)
                steps.append(dict(op="failed", peer=rnd.randint(1, npeers), hash=x, id=(x + 1) // 2))
            elif r < 0.95:
                steps.append(dict(op="onchain", hash=rnd.choice(hashes)))
            else:
                steps.append(dict(op="remove", hash=rnd.choice(hashes)))
        out.append(dict(batch=batch, steps=steps))
    # one block that keeps failing: 500 retries, then given up
    steps = [dict(op="announce", peer=1, hash=1, id=1), dict(op="announce", peer=1, hash=2, id=1), dict(op="build")]
    for _ in range(505):
        steps.append(dict(op="select"))
        steps.append(dict(op="failed", peer=1, hash=1, id=1))
        steps.append(dict(op="select"))
    out.append(dict(batch=1, steps=steps))
    return out


def run(pid, t, replay=None):
    t0 = time.time()
    wd = workdir(pid)
    rnd = random.Random(seed())
    build_harness()
    dist = gen_n = 0
    if replay:
        scns = [json.load(open(replay))["scenario"]]
    else:
        for i, (consts, invs, props) in enumerate(MC[t]):
            cfg = os.path.join(wd, "MC_FetchSched_%d.cfg" % i)
            write_cfg(cfg, "Spec", consts, invariants=invs, properties=props)
            rc, out = tlc("MC_FetchSched.tla", cfg, wd, workers=12, timeout=2400, heap="12g")
            if not tlc_ok(out):
                raise ToolError("MC_FetchSched[%d]: %s" % (i, tlc_error_summary(out)))
            d, g = tlc_stats(out)
            dist += d
            gen_n += g
        log("MC_FetchSched: %d instances, %d distinct states" % (len(MC[t]), dist))
        scns = []
        for i, (consts, num) in enumerate(SIM[t]):
            cfg = os.path.join(wd, "MC_FetchSched_sim%d.cfg" % i)
            write_cfg(cfg, "Spec", consts, invariants=SAFE + ["PrintScenario"])
            rc, out = tlc("MC_FetchSched.tla", cfg, wd, workers=4, timeout=1200, heap="6g",
                          extra=["-simulate", "num=%d" % num, "-depth", str(consts["MaxLen"] + 1), "-seed", str(seed() + i)])
            if "Error:" in out and "violated" in out:
                raise ToolError("MC_FetchSched simulation found a model error: " + tlc_error_summary(out))
            s = printed(out, "SCN")
            log("MC_FetchSched simulation %d: %d behaviours" % (i, len(s)))
            scns += s
        scns = sample(scns, SIM_SAMPLE[t], rnd)
        scns += random_scenarios(rnd, 200 if t == "quick" else 3000)
    spath = os.path.join(wd, "scenarios.jsonl")
    with open(spath, "w") as f:
        for s in scns:
            f.write(json.dumps(s) + "\n")
    tpath = os.path.join(wd, "trace.ndjson")
    run_harness("sched", spath, tpath)
    violations = []
    known_hits = []
    known = load_known()
    bad_all = []
    consumed = 0
    # the trace spec has the batch size as a constant: validate per batch size
    by_batch = {}
    cur = None
    with open(tpath) as f:
        for ln in f:
            if '"ev":"Reset"' in ln:
                cur = json.loads(ln)["batch"]
            by_batch.setdefault(cur, []).append(ln)
    for b, lines in sorted(by_batch.items()):
        p = os.path.join(wd, "trace_b%d.ndjson" % b)
        with open(p, "w") as f:
            f.writelines(lines)
        cfg = os.path.join(wd, "FetchSchedTrace_b%d.cfg" % b)
        write_cfg(cfg, "TraceSpec", dict(Batch=b, MaxRetries=500), invariants=["ReportBad"], postcondition="TraceDone")
        chunks, nev = split_trace(p, wd, 8000, prefix="chunk_b%d" % b)
        bad, n = validate_traces("FetchSchedTrace.tla", cfg, chunks, wd, par=8)
        bad_all += bad
        consumed += n
    log("TV: %d events, %d divergences" % (consumed, len(bad_all)))
    by_scn = {}
    for b in bad_all:
        by_scn.setdefault(b["scn"], []).append(b)
    for k, bs in sorted(by_scn.items()):
        unmatched = []
        for b in bs:
            sig = dict(kind="trace", why=b["why"], res=b["res"])
            kf = match_known(pid, sig, known)
            if kf:
                known_hits.append(kf)
            else:
                unmatched.append(dict(sig, step=b["i"]))
        if unmatched:
            violations.append((unmatched[0], write_replay(pid, dict(property=pid, scenario=scns[k], divergences=unmatched,
                                                                    seed=seed(), tier=t))))
    nontrivial = len({json.dumps(s, sort_keys=True) for s in scns
                      if any(st["op"] == "select" for st in s["steps"]) and any(st["op"] in ("failed", "fetched", "onchain") for st in s["steps"])})
    coverage = dict(states=dist, transitions=gen_n, traces_validated_against_impl=len(scns), evaluations=consumed,
                    distinct_nontrivial=nontrivial,
                    rule="scenarios = behaviours of MC_FetchSched (TLC -simulate) + seeded random op sequences + one run "
                         "exhausting the real retry bound; non-trivial = distinct scenario with a selection round and a "
                         "fetch completion/failure/removal",
                    samples=[scns[0], scns[len(scns) // 2]], exhaustive=False,
                    mc_instances=[c for c, _, _ in MC[t]], simulation_instances=[c for c, _ in SIM[t]],
                    checker_cmd="tlc MC_FetchSched.tla (safety + liveness, exhaustive per instance); harness/bin/sched; tlc FetchSchedTrace.tla",
                    trusted_base=["TLC 1.8.0", "cfg(saito_verif) accessors of BlockchainSyncState", "harness sched.rs"])
    write_evidence(pid, t, "model_checking", coverage,
                   ["hash order is the byte order of the hash; abstract hashes are encoded order-preservingly",
                    "MaxRetries is bound to the real constant (500) in trace validation and to 1-2 in the exhaustive model",
                    "liveness (every queued block eventually requested) is checked on the bounded model under weak fairness of Build, Select and fetch completion"],
                   time.time() - t0, len(violations))
    return finish(pid, violations, known_hits)
