"""C17: Handshake.tla (MC_Handshake: exhaustive MC + -simulate GEN; HandshakeTrace: TV)."""
import json
import os
import random
import time

from vlib import *
from chk_ledger import run_harness

INV = ["Auth", "AcceptedOnce", "OnlyOwnChallenge"]
FULL = dict(Vers='{"ok", "unset", "incompatible"}', Valids="{TRUE, FALSE}")
FOCUS = dict(Vers='{"ok"}', Valids="{TRUE}")
MC = {"quick": [dict(Conns="{1, 2}", MaxNonce=4, MaxLen=4, **FULL), dict(Conns="{1, 2}", MaxNonce=5, MaxLen=6, **FOCUS)],
      "thorough": [dict(Conns="{1, 2}", MaxNonce=4, MaxLen=5, **FULL), dict(Conns="{1, 2}", MaxNonce=6, MaxLen=7, **FOCUS),
                   dict(Conns="{1, 2, 3}", MaxNonce=4, MaxLen=4, **FULL)]}
SIM = {"quick": [(dict(Conns="{1, 2}", MaxNonce=6, MaxLen=9, **FOCUS), 30), (dict(Conns="{1, 2}", MaxNonce=5, MaxLen=8, **FULL), 30),
                 (dict(Conns="{1, 2, 3}", MaxNonce=7, MaxLen=10, **FOCUS), 20)],
       "thorough": [(dict(Conns="{1, 2}", MaxNonce=6, MaxLen=9, **FOCUS), 400), (dict(Conns="{1, 2}", MaxNonce=5, MaxLen=8, **FULL), 400),
                    (dict(Conns="{1, 2, 3}", MaxNonce=8, MaxLen=12, **FOCUS), 400)]}
SIM_SAMPLE = {"quick": 1800, "thorough": 30000}


def attack_templates():
    """named attack schedules (always included): replay, reflection, cross-connection lift, unsolicited
    response, key change, double acceptance"""
    R = lambda c, k, x, valid=True, ver="ok": dict(op="resp", conn=c, key=k, x=x, valid=valid, ver=ver)
    O = lambda c: dict(op="open", conn=c)
    C = lambda c, x: dict(op="chal", conn=c, x=x)
    X = lambda c: dict(op="close", conn=c)
    roles = ["acc", "ini"]
    t = [
        [O(1), R(1, "B", "a1")],                                  # honest acceptance (B signs a1)
        [O(1), R(1, "B", "a1"), R(1, "B", "a1")],                 # replay of the accepted response
        [O(1), R(1, "B", "a1"), X(1), O(1), R(1, "B", "a1")],     # replay on a new connection (old challenge)
        [O(1), O(2), C(2, "a1"), R(1, "A", "a1")],                # reflection: A's own signature over its own challenge
        [O(1), X(1), O(1), R(1, "B", "a1")],                      # response for a superseded challenge
        [O(2), R(2, "B", "m1")],                                  # unsolicited response on an outgoing connection
        [O(2), C(2, "m1"), R(2, "B", "a1")],                      # initiator side acceptance
        [O(2), C(2, "m1"), R(2, "B", "a1"), C(2, "m1"), R(2, "M", "a2")],   # key change on one connection
        [O(1), R(1, "M", "a1"), C(1, "m1"), R(1, "B", "a2")],     # key change on an incoming connection
        [O(1), R(1, "B", "a1"), O(2), C(2, "m1"), R(2, "B", "a2", False)],  # bad signature must not disturb conn 1
        [O(1), R(1, "B", "a1"), O(2), C(2, "m1"), R(2, "B", "a2", True, "incompatible")],
        [O(1), R(1, "B", "a1"), O(2), C(2, "m1"), R(2, "B", "a1")],          # response lifted from another connection
        [O(1), R(1, "B", "a1"), O(2), C(2, "m1"), R(2, "B", "a2")],          # same key on a second connection
        [O(1), R(1, "B", "a1"), X(1), O(2), C(2, "m1"), R(2, "B", "a2")],    # reconnection under the same key
        [O(2), C(2, "m1"), X(2), O(2), R(2, "B", "a1")],          # answer to a challenge of the previous connection of a static peer
        # a handshake fails, the peer's challenge is delivered again before the socket is gone (the node issues a fresh
        # challenge of its own in a state in which it no longer expects a handshake), close, reconnect, and the withheld
        # answer to that last challenge is played on the new connection (static peer: the peer object is reused)
        [O(2), C(2, "m1"), R(2, "B", "a1", False), C(2, "m2"), X(2), O(2), R(2, "B", "a2")],
        [O(2), C(2, "m1"), R(2, "M", "a1", False), C(2, "m1"), X(2), O(2), C(2, "m3"), R(2, "B", "a2")],
        [O(2), C(2, "m1"), R(2, "B", "a1", True, "incompatible"), C(2, "m2"), X(2), O(2), R(2, "B", "a2")],
        [O(1), R(1, "B", "a1", False), C(1, "m1"), X(1), O(1), R(1, "B", "a2")],
        [O(2), C(2, "m1"), R(2, "B", "a1", False), C(2, "m2"), X(2), X(2), O(2), R(2, "B", "a2")],
        [O(2), R(2, "B", "zero")],                                # unsolicited response signed over the all-zero challenge
        [O(1), R(1, "B", "a1"), R(1, "B", "zero")],
        [O(2), C(2, "zero"), R(2, "B", "a1")],
    ]
    return [dict(roles=roles, steps=s) for s in t]


def run(pid, t, replay=None):
    t0 = time.time()
    wd = workdir(pid)
    rnd = random.Random(seed())
    build_harness()
    dist = gen_n = 0
    if replay:
        scns = [json.load(open(replay))["scenario"]]
    else:
        for i, consts in enumerate(MC[t]):
            cfg = os.path.join(wd, "MC_Handshake_%d.cfg" % i)
            write_cfg(cfg, "Spec", dict(consts, **{"Role": "<- RoleDef"}), invariants=INV, properties=["NoDisturb"])
            fix_role(cfg)
            rc, out = tlc("MC_Handshake.tla", cfg, wd, workers=12, timeout=2400, heap="12g")
            if not tlc_ok(out):
                raise ToolError("MC_Handshake[%d]: %s" % (i, tlc_error_summary(out)))
            d, g = tlc_stats(out)
            dist += d
            gen_n += g
        log("MC_Handshake: %d distinct states" % dist)
        scns = []
        for i, (consts, num) in enumerate(SIM[t]):
            cfg = os.path.join(wd, "MC_Handshake_sim%d.cfg" % i)
            write_cfg(cfg, "Spec", dict(consts, **{"Role": "<- RoleDef"}), invariants=INV + ["PrintScenario"])
            fix_role(cfg)
            rc, out = tlc("MC_Handshake.tla", cfg, wd, workers=4, timeout=1200, heap="6g",
                          extra=["-simulate", "num=%d" % num, "-depth", str(consts["MaxLen"] + 1), "-seed", str(seed() + i)])
            if "Error:" in out and "violated" in out:
                raise ToolError("MC_Handshake simulation found a model error: " + tlc_error_summary(out))
            s = printed(out, "SCN")
            log("MC_Handshake simulation %d: %d behaviours" % (i, len(s)))
            scns += s
        scns = sample(scns, SIM_SAMPLE[t], rnd) + attack_templates()
    spath = os.path.join(wd, "scenarios.jsonl")
    with open(spath, "w") as f:
        for s in scns:
            f.write(json.dumps(s) + "\n")
    tpath = os.path.join(wd, "trace.ndjson")
    run_harness("handshake", spath, tpath)
    # the trace spec has the connection set as a constant: validate per number of connections
    groups = {}
    cur = None
    with open(tpath) as f:
        for ln in f:
            if '"ev":"Reset"' in ln:
                cur = len(json.loads(ln)["roles"])
            groups.setdefault(cur, []).append(ln)
    bad_all = []
    consumed = 0
    for n, lines in sorted(groups.items()):
        p = os.path.join(wd, "trace_c%d.ndjson" % n)
        with open(p, "w") as f:
            f.writelines(lines)
        cfg = os.path.join(wd, "HandshakeTrace_c%d.cfg" % n)
        write_cfg(cfg, "TraceSpec", {"Conns": "{%s}" % ", ".join(str(i) for i in range(1, n + 1)), "Role": "<- RoleDef"},
                  invariants=["ReportBad"], postcondition="TraceDone")
        fix_role(cfg)
        chunks, nev = split_trace(p, wd, 6000, prefix="chunk_c%d" % n)
        bad, k = validate_traces("HandshakeTrace.tla", cfg, chunks, wd, par=8)
        bad_all += bad
        consumed += k
    log("TV: %d events, %d divergences" % (consumed, len(bad_all)))
    known = load_known()
    violations = []
    known_hits = []
    by_scn = {}
    for b in bad_all:
        by_scn.setdefault(b["scn"], []).append(b)
    for k, bs in sorted(by_scn.items()):
        unmatched = []
        for b in bs:
            sig = dict(kind="trace", why=b["why"], res=b["res"][:80])
            kf = match_known(pid, sig, known)
            if kf:
                known_hits.append(kf)
            else:
                unmatched.append(dict(sig, step=b["i"]))
        if unmatched:
            violations.append((unmatched[0], write_replay(pid, dict(property=pid, scenario=scns[k], divergences=unmatched,
                                                                    seed=seed(), tier=t))))
    accepted = 0
    for ln in open(tpath):
        if '"status":"connected"' in ln:
            accepted += 1
    nontrivial = len({json.dumps(s, sort_keys=True) for s in scns if sum(1 for st in s["steps"] if st["op"] == "resp") >= 1
                      and any(st["op"] == "chal" or st["op"] == "open" for st in s["steps"])})
    coverage = dict(states=dist, transitions=gen_n, traces_validated_against_impl=len(scns), evaluations=consumed,
                    distinct_nontrivial=nontrivial, events_with_a_connected_peer=accepted,
                    rule="scenarios = attacker schedules of MC_Handshake (TLC -simulate; full and focused alphabets) + named "
                         "attack templates (replay, reflection, lifted response, key change, same key twice, reconnection); "
                         "non-trivial = distinct schedule containing at least one response after a connection was opened",
                    samples=[scns[0], scns[-1]], exhaustive=False, mc_instances=MC[t],
                    checker_cmd="tlc MC_Handshake.tla; harness/bin/handshake (real Network/Peer, real keys and signatures); tlc HandshakeTrace.tla",
                    trusted_base=["TLC 1.8.0", "harness handshake.rs (attacker assembles messages only from captured fields and keys it owns; "
                                  "honest key B signs any challenge, as honest nodes do)"])
    write_evidence(pid, t, "model_checking", coverage,
                   ["signatures unforgeable; challenge bytes are read from the node's real outbound messages",
                    "a response genuinely signed by K over this connection's fresh challenge satisfies the property even when relayed (DESIGN 3.9a)"],
                   time.time() - t0, len(violations))
    return finish(pid, violations, known_hits)


def fix_role(cfg):
    txt = open(cfg).read().replace("Role = <- RoleDef", "Role <- RoleDef")
    open(cfg, "w").write(txt)
