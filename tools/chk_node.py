"""C11: Node.tla (MC_Node: handler protocol, non-interference, completion under fairness; NodeTrace: TV of the whole node,
twin-run non-interference) + panics observed in the ledger family."""
import json
import os
import random
import re
import time

import gen_ledger
import gen_node
from chk_ledger import run_harness, norm_why
from vlib import *

SAFE = {"quick": dict(Conns="{1, 2}", Honest="{1}", MaxH=4, StartH=2, TxIds="{1}", Budget=3, MaxHostile=3, ScnLen=14),
        "thorough": dict(Conns="{1, 2}", Honest="{1}", MaxH=5, StartH=2, TxIds="{1}", Budget=3, MaxHostile=4, ScnLen=18)}
LIVE = dict(Conns="{1, 2}", Honest="{1}", MaxH=3, StartH=2, TxIds="{1}", Budget=5, MaxHostile=2, ScnLen=99)
SIMN = {"quick": 300, "thorough": 4000}
RANDN = {"quick": 300, "thorough": 6000}
LEDGERN = {"quick": 240, "thorough": 3000}


def to_steps(b, rnd):
    """a behaviour of MC_Node as inputs for the real node"""
    chain, pre = b["maxh"], b["starth"]
    steps = []
    for x in b["steps"]:
        op, c, h, ok, hostile = x["op"], x["conn"], x["h"], x["ok"], x["hostile"]
        if op == "open":
            steps.append(dict(op="open", conn=c, hostile=hostile))
        elif op == "close":
            steps.append(dict(op="close", conn=c, hostile=hostile))
        elif op == "auth":
            steps.append(dict(op="auth", conn=c, kind="hostile" if hostile else "honest", hostile=hostile))
        elif op == "announce":
            if hostile:
                steps.append(dict(op="msg", conn=c, kind=rnd.choice(["hash_unknown", "hash_far", "hash_zero", "hash_known"]), n=rnd.randint(0, 9), hostile=True))
            else:
                steps.append(dict(op="msg", conn=c, kind="hash_next", blk=h - 1))
        elif op == "fetched":
            if hostile:
                steps.append(dict(op="fetched", conn=c, kind=rnd.choice(gen_node.FETCHED_HOSTILE), blk=min(h - 1, chain - 1), n=rnd.randint(0, 9), hostile=True))
            else:
                steps.append(dict(op="fetched", conn=c, kind="next", blk=h - 1))
        elif op == "fetchfail":
            steps.append(dict(op="fetchfail", conn=c, blk=chain - 1, hostile=True))
        elif op == "tx":
            if hostile:
                steps.append(dict(op="msg", conn=c, kind=rnd.choice([k for k in gen_node.MSG_HOSTILE if k.startswith(("tx_", "gt_"))]), n=rnd.randint(0, 9), hostile=True))
            else:
                steps.append(dict(op="msg", conn=c, kind="tx_ok", n=h))
        elif op == "junk":
            kinds = ["garbage", "empty", "short_tx"] if ok else [k for k in gen_node.MSG_HOSTILE if not k.startswith(("tx_", "gt_", "hash_", "garbage", "empty", "short"))]
            steps.append(dict(op="msg", conn=c, kind=rnd.choice(kinds), n=rnd.randint(0, 9), hostile=True))
        elif op == "run":
            steps.append(dict(op="run", q="verify" if h == 1 else "consensus"))
    steps.append(dict(op="drain"))
    return dict(g=20, hb=100, chain=chain, pre=pre, steps=steps)


def run(pid, t, replay=None):
    t0 = time.time()
    wd = workdir(pid)
    rnd = random.Random(seed())
    build_harness()
    dist = gen_n = 0
    cov = {}
    lscns = []
    if replay:
        rp = json.load(open(replay))
        scns = [rp["scenario"]] if rp.get("family", "node") == "node" else []
        lscns = [rp["scenario"]] if rp.get("family") == "ledger" else []
    else:
        cfg = os.path.join(wd, "MC_Node.cfg")
        write_cfg(cfg, "MCSpec", SAFE[t], invariants=["TypeOK", "NoCrashOutcome", "PoolOnlyAcceptable", "OnlyValidReachesConsensus"],
                  properties=["NonInterference", "TipMonotone"], constraint="Bound", view="View")
        rc, out = tlc("MC_Node.tla", cfg, wd, workers=8, timeout=900, extra=["-coverage", "1"], heap="8g")
        if not tlc_ok(out):
            raise ToolError("MC_Node: " + tlc_error_summary(out))
        dist, gen_n = tlc_stats(out)
        cov = action_coverage(out)
        for a in ("MCHonest", "MCHostile", "MCInternal"):
            if cov.get(a, 0) == 0:
                raise ToolError("MC_Node: action %s never taken" % a)
        cfg = os.path.join(wd, "MC_Node_live.cfg")
        write_cfg(cfg, "MCFair", LIVE, invariants=["TypeOK"], properties=["MCSyncCompletes"])
        rc, out = tlc("MC_Node.tla", cfg, wd, workers=8, timeout=600, heap="8g")
        if not tlc_ok(out):
            raise ToolError("MC_Node (liveness): " + tlc_error_summary(out))
        d2, g2 = tlc_stats(out)
        log("MC_Node: %d distinct states (safety), %d (completion under fairness)" % (dist, d2))
        if t == "thorough":
            # beyond the bound: TLAPS proves HostileStep keeps HonestView for any number of connections / heights
            import shutil
            import subprocess
            pd = os.path.join(wd, "tlaps")
            os.makedirs(pd, exist_ok=True)
            src = open(os.path.join(SPEC, "Node.tla")).read()
            rec = "RECURSIVE Climb(_, _)\nClimb(t, hs) == IF t + 1 \\in hs THEN Climb(t + 1, hs) ELSE t"
            if rec not in src:
                raise ToolError("Node.tla: the recursive operator to be abstracted for tlapm was not found")
            src = src.replace("MODULE Node ", "MODULE NodeP ").replace(rec, "CONSTANT Climb(_, _)")
            open(os.path.join(pd, "NodeP.tla"), "w").write(src)
            shutil.copy(os.path.join(SPEC, "NodeProofs.tla"), pd)
            p = subprocess.run(["tlapm", "--threads", "8", "NodeProofs.tla"], cwd=pd, stdout=subprocess.PIPE, stderr=subprocess.STDOUT, text=True, timeout=1500)
            m = re.search(r"All (\d+) obligations proved", p.stdout)
            if not m:
                raise ToolError("tlapm NodeProofs: " + p.stdout[-600:])
            tlaps_note = "TLAPS: HostileStepKeepsHonestView proved (%s obligations), unbounded in connections / heights / budget" % m.group(1)
            log(tlaps_note)
        # GEN: behaviours of the model by simulation
        cfg = os.path.join(wd, "MC_Node_sim.cfg")
        write_cfg(cfg, "MCSpec", SAFE[t], invariants=["TypeOK", "PrintScenario"], constraint="Bound")
        rc, out = tlc("MC_Node.tla", cfg, wd, workers=4, timeout=600, heap="4g",
                      extra=["-simulate", "num=%d" % SIMN[t], "-depth", str(SAFE[t]["ScnLen"] + 1), "-seed", str(seed())])
        beh = printed(out, "SCN")
        uniq = {json.dumps(b, sort_keys=True): b for b in beh}
        scns = [to_steps(b, rnd) for b in uniq.values()]
        log("MC_Node simulation: %d behaviours, %d distinct" % (len(beh), len(scns)))
        nsim = len(scns)
        scns += gen_node.scenarios(seed(), RANDN[t])
        lscns = gen_ledger.scenarios(seed() + 11, LEDGERN[t])
    violations, known_hits = [], []
    known = load_known()
    consumed = 0
    tlaps_note = locals().get("tlaps_note")
    stalled = []
    if scns:
        spath = os.path.join(wd, "scenarios.jsonl")
        with open(spath, "w") as f:
            for s in scns:
                f.write(json.dumps(s) + "\n")
        tpath = os.path.join(wd, "trace.ndjson")
        stalled = run_harness("node", spath, tpath)
        cfg = os.path.join(wd, "NodeTrace.cfg")
        write_cfg(cfg, "TraceSpec", {}, invariants=["ReportBad"], postcondition="TraceDone")
        txt = open(cfg).read().replace("CONSTANTS\n", "")
        open(cfg, "w").write(txt)
        chunks, nev = split_trace(tpath, wd, 5000)
        bad, consumed = validate_traces("NodeTrace.tla", cfg, chunks, wd, par=8)
        log("TV (node): %d events, %d divergences" % (consumed, len(bad)))
        for k, lab in stalled:
            sig = dict(kind="stall", why="handler did not return", res="")
            violations.append((sig, write_replay(pid, dict(property=pid, family="node", scenario=scns[k], divergences=[sig], note=lab))))
        by_scn = {}
        for b in bad:
            by_scn.setdefault(b["scn"], []).append(b)
        for k, bs in sorted(by_scn.items()):
            unmatched = []
            for b in bs:
                sig = dict(kind="trace", why=b["why"].split(":")[0], res=b["res"].split("|")[0][:60], op=b["op"], input=b["kind"])
                kf = match_known(pid, sig, known)
                if kf:
                    known_hits.append(kf)
                else:
                    unmatched.append(dict(sig, step=b["i"], detail=b["why"], full=b["res"]))
            if unmatched:
                violations.append((unmatched[0], write_replay(pid, dict(property=pid, family="node", scenario=scns[k], divergences=unmatched,
                                                                        seed=seed(), tier=t))))
    # the ledger family: any handler panic while blocks / transactions from peers are processed
    lconsumed = 0
    if lscns:
        lwd = os.path.join(wd, "ledger")
        os.makedirs(lwd, exist_ok=True)
        spath = os.path.join(lwd, "scenarios.jsonl")
        with open(spath, "w") as f:
            for s in lscns:
                f.write(json.dumps(s) + "\n")
        tpath = os.path.join(lwd, "trace.ndjson")
        lst = run_harness("ledger", spath, tpath)
        cfg = os.path.join(lwd, "LedgerTrace.cfg")
        write_cfg(cfg, "TraceSpec", {}, invariants=["ReportBad"], postcondition="TraceDone")
        txt = open(cfg).read().replace("CONSTANTS\n", "")
        open(cfg, "w").write(txt)
        chunks, nev = split_trace(tpath, lwd, 5000)
        bad, lconsumed = validate_traces("LedgerTrace.tla", cfg, chunks, lwd, par=8)
        mine = [b for b in bad if b["prop"] == pid]
        log("TV (ledger family): %d events, %d divergences for %s" % (lconsumed, len(mine), pid))
        for k, lab in lst:
            sig = dict(kind="stall", why="call did not return", res="")
            violations.append((sig, write_replay(pid, dict(property=pid, family="ledger", scenario=lscns[k], divergences=[sig], note=lab))))
        for b in mine:
            sig = dict(kind="trace", why=norm_why(b["why"]), res=b["res"])
            kf = match_known(pid, sig, known)
            if kf:
                known_hits.append(kf)
            else:
                violations.append((sig, write_replay(pid, dict(property=pid, family="ledger", scenario=lscns[b["scn"]], divergences=[sig],
                                                               seed=seed(), tier=t))))
    kinds = set()
    hostile_n = 0
    for s in scns:
        for st in s["steps"]:
            if st.get("hostile"):
                hostile_n += 1
                kinds.add((st["op"], st.get("kind", "")))
    coverage = dict(
        states=max(dist, 1), transitions=max(gen_n, 1), traces_validated_against_impl=len(scns) + len(lscns) - len(stalled),
        evaluations=consumed + lconsumed, distinct_nontrivial=len({json.dumps(s, sort_keys=True) for s in scns if any(st.get("hostile") for st in s["steps"])}),
        rule="scenario = honest synchronisation (connect, handshake, announcements, fetched blocks, a transaction) interleaved with hostile input: "
             "behaviours of MC_Node by TLC simulation, the hostile catalogue (every message kind and fetched-block kind, before and after the attacker's "
             "handshake, from an opened and a never-opened connection), seeded random interleavings incl. partially drained internal queues; non-trivial = "
             "distinct scenario with at least one hostile input. The ledger family adds blocks and transactions with adversarial content (any panic there is reported here)",
        hostile_inputs=hostile_n, hostile_kinds=sorted("%s:%s" % k for k in kinds), action_counts=cov,
        samples=[scns[0], scns[-1]] if scns else lscns[:1], exhaustive=False,
        mc_instance=SAFE[t], liveness_instance=LIVE, tlaps=tlaps_note,
        known_findings_matched=len(set(k["id"] for k in known_hits)),
        checker_cmd="tlc MC_Node.tla (safety + completion under fairness + -simulate GEN); harness/bin/node (twin run); tlc NodeTrace.tla; harness/bin/ledger; tlc LedgerTrace.tla",
        trusted_base=["TLC 1.8.0", "harness fullnode.rs (handlers stepped one call at a time; internal queue items tagged by origin)",
                      "node.rs honest-view projection", "hostile inputs are rejected-by-construction (catalogue in node.rs)"],
    )
    write_evidence(pid, t, "model_checking", coverage,
                   ["block-fetch completions are produced by the node's own I/O layer for the peer it asked: a hostile peer cannot complete the fetch of a hash requested from somebody else",
                    "hostile connections carry only hostile input in a scenario; honest connections only honest input",
                    "internal staging that no peer can observe (stored orphan blocks, transactions waiting for the pool, golden tickets held) is not part of the compared view",
                    "transactions of the honest chain are acceptable input whoever relays them (a rejected block hands its transactions to the pool)",
                    "a stall is a handler call that does not return within 20 s"],
                   time.time() - t0, len(violations))
    return finish(pid, violations, known_hits)
