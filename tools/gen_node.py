"""Scenarios for the whole-node harness (C11): honest sync traffic interleaved with hostile input.

Hostile input (marked hostile=true) is input the node has to reject or ignore; it only arrives over
connections that carry nothing else (2, 3: opened by the attacker, 9: never opened)."""
import random

MSG_HOSTILE = ["garbage", "empty", "short_tx", "chal", "resp_bad", "blocktag", "tx_forged", "tx_phantom", "tx_overspend", "tx_wrap",
               "tx_fee", "tx_atr", "tx_spv", "tx_issuance", "tx_noinputs", "tx_typed_noinputs", "tx_empty", "tx_manyslips", "gt_short", "gt_long", "gt_wrong",
               "chainreq", "chainreq_far", "chainreq_zero", "hash_known", "hash_zero", "hash_far", "hash_unknown", "ping", "spv",
               "services", "services_bad", "ghostreq", "ghostreq_far", "ghost_empty", "ghost_fake", "api", "api_result", "api_error",
               "keylist", "keylist_big"]
FETCHED_HOSTILE = ["garbage", "empty", "truncated", "wrong_hash", "wrong_id", "badsig", "bad_tx", "bad_tx_peer_id", "dup_input_first", "gt_payload",
                   "no_txs", "spv_tx", "fee_forged", "far_orphan", "id_zero"]


def hostile_step(rnd, chain, opened, authed):
    r = rnd.random()
    conn = rnd.choice([2, 2, 2, 3, 9])
    if r < 0.08:
        opened.add(conn)
        return dict(op="open", conn=conn, hostile=True)
    if r < 0.14:
        opened.discard(conn)
        authed.discard(conn)
        return dict(op="close", conn=conn, hostile=True)
    if r < 0.22 and conn in opened:
        authed.add(conn)
        return dict(op="auth", conn=conn, kind="hostile", hostile=True)
    if r < 0.62:
        return dict(op="msg", conn=conn, kind=rnd.choice(MSG_HOSTILE), n=rnd.randint(0, 9), hostile=True)
    if r < 0.92:
        return dict(op="fetched", conn=conn, kind=rnd.choice(FETCHED_HOSTILE), blk=rnd.randint(1, chain - 1), n=rnd.randint(0, 9),
                    hostile=True)
    if r < 0.96:
        return dict(op="fetchfail", conn=conn, blk=rnd.randint(1, chain - 1), hostile=True)
    if r < 0.98:
        return dict(op="flood", conn=conn, n=rnd.choice([10, 200]), kind=rnd.choice(["ping", "keylist", "chal"]), hostile=True)
    return dict(op="msg", conn=conn, kind=rnd.choice(["tx_forged", "tx_phantom"]), n=rnd.randint(0, 9), hostile=True)


def scenario(rnd, hostile_p=0.5, single=None):
    chain = rnd.choice([5, 6, 8])
    pre = rnd.randint(1, 3)
    g = 20
    if rnd.random() < 0.3:
        # a short retention window: the honest chain outgrows window and block ring while the node follows it
        g = rnd.choice([2, 3])
        chain = rnd.randint(2 * g + 3, 2 * g + 6)
    steps = [dict(op="open", conn=1), dict(op="auth", conn=1, kind="honest")]
    opened, authed = set(), set()
    if rnd.random() < 0.8:
        steps.append(dict(op="open", conn=2, hostile=True))
        opened.add(2)
        if rnd.random() < 0.5:
            steps.append(dict(op="auth", conn=2, kind="hostile", hostile=True))
            authed.add(2)
    lazy = rnd.random() < 0.4     # leave internal queues pending and interleave

    def maybe_hostile():
        while rnd.random() < hostile_p:
            steps.append(single(rnd, chain) if single else hostile_step(rnd, chain, opened, authed))

    order = list(range(pre, chain))
    if rnd.random() < 0.3:
        # announcements first, then the blocks in some order
        for i in order:
            steps.append(dict(op="msg", conn=1, kind="hash_next", blk=i))
            maybe_hostile()
        deliver = order[:]
        if rnd.random() < 0.5:
            rnd.shuffle(deliver)
        for i in deliver:
            steps.append(dict(op="fetched", conn=1, kind="next", blk=i))
            maybe_hostile()
            if not lazy:
                steps.append(dict(op="drain"))
    else:
        for i in order:
            steps.append(dict(op="msg", conn=1, kind="hash_next", blk=i))
            maybe_hostile()
            steps.append(dict(op="fetched", conn=1, kind="next", blk=i))
            maybe_hostile()
            for q in (["verify", "consensus", "router"] if not lazy else rnd.sample(["verify", "consensus", "router"], 2)):
                steps.append(dict(op="run", q=q))
                maybe_hostile()
    if rnd.random() < 0.5:
        steps.append(dict(op="msg", conn=1, kind="tx_ok", n=rnd.randint(0, 4)))
        maybe_hostile()
    if rnd.random() < 0.3:
        steps.append(dict(op="tick", ms=rnd.choice([1000, 2500, 6000])))
        maybe_hostile()
    steps.append(dict(op="drain"))
    maybe_hostile()
    steps.append(dict(op="drain"))
    return dict(g=g, hb=100, chain=chain, pre=pre, steps=steps)


def catalogue_scenarios(rnd):
    """every hostile message / fetched-block kind, alone, before and after the attacker's handshake, from an
    opened and from a never-opened connection"""
    out = []
    for authd in (False, True):
        for conn in (2, 9):
            for kind in MSG_HOSTILE:
                out.append(_single(rnd, dict(op="msg", conn=conn, kind=kind, n=3, hostile=True), authd))
            for kind in FETCHED_HOSTILE:
                out.append(_single(rnd, dict(op="fetched", conn=conn, kind=kind, blk=2, n=3, hostile=True), authd))
    return out


def sweep_scenarios(rnd):
    """(a) every transaction type with 0..4 inputs and outputs of assorted slip types, as a message and inside a fetched block;
    (b) an attacker announcing more blocks than the fetch quota, failing to serve them, announcing again"""
    out = []
    for pat in range(5):
        for typ in range(9):
            # some of these transactions are perfectly acceptable (zero-value messages): they are not marked hostile,
            # both twins receive them; what is checked is that no handler call crashes on any shape
            steps = [dict(op="open", conn=1), dict(op="auth", conn=1, kind="honest"), dict(op="open", conn=2),
                     dict(op="msg", conn=1, kind="hash_next", blk=2)]
            for nin in range(5):
                for nout in range(5):
                    n = typ + 9 * nin + 45 * nout + 225 * pat
                    steps.append(dict(op="msg", conn=2, kind="tx_shape", n=n))
                    if (nin + nout + pat) % 3 == 0:
                        steps.append(dict(op="fetched", conn=2, kind="tx_shape", blk=2, n=n))
            steps += [dict(op="fetched", conn=1, kind="next", blk=2), dict(op="drain")]
            out.append(dict(g=20, hb=100, chain=4, pre=2, steps=steps))
    for authd in (False, True):
        for n1, nf, rounds in ((12, 3, 3), (25, 12, 4), (40, 40, 3), (11, 11, 6)):
            steps = [dict(op="open", conn=1), dict(op="auth", conn=1, kind="honest"), dict(op="open", conn=2, hostile=True)]
            if authd:
                steps.append(dict(op="auth", conn=2, kind="hostile", hostile=True))
            steps.append(dict(op="msg", conn=1, kind="hash_next", blk=2))
            for _ in range(rounds):
                steps.append(dict(op="flood", conn=2, kind="hash", n=n1, hostile=True))
                steps.append(dict(op="fetchfail", conn=2, kind="nobody", n=nf, hostile=True))
                steps.append(dict(op="tick", ms=2500))
            steps += [dict(op="fetched", conn=1, kind="next", blk=2), dict(op="drain")]
            out.append(dict(g=20, hb=100, chain=4, pre=2, steps=steps))
    return out


def pair_scenarios(rnd):
    """hostile inputs that only bite in pairs: a block with id 0 on a known parent and a child of it"""
    out = []
    for blk in (2, 3):
        for authd in (False, True):
            steps = [dict(op="open", conn=1), dict(op="auth", conn=1, kind="honest"), dict(op="open", conn=2, hostile=True)]
            if authd:
                steps.append(dict(op="auth", conn=2, kind="hostile", hostile=True))
            steps += [dict(op="fetched", conn=2, kind="id_zero", blk=blk, n=1, hostile=True), dict(op="drain"),
                      dict(op="fetched", conn=2, kind="id_zero_child", blk=blk, n=1, hostile=True), dict(op="drain"),
                      dict(op="msg", conn=1, kind="hash_next", blk=blk), dict(op="fetched", conn=1, kind="next", blk=blk), dict(op="drain"),
                      dict(op="tick", ms=1500), dict(op="drain")]
            out.append(dict(g=20, hb=100, chain=5, pre=blk, steps=steps))
    return out


def _single(rnd, st, authd):
    steps = [dict(op="open", conn=1), dict(op="auth", conn=1, kind="honest")]
    if st["conn"] == 2:
        steps.append(dict(op="open", conn=2, hostile=True))
        if authd:
            steps.append(dict(op="auth", conn=2, kind="hostile", hostile=True))
    steps += [dict(op="msg", conn=1, kind="hash_next", blk=2), st, dict(op="fetched", conn=1, kind="next", blk=2), dict(st),
              dict(op="drain"), dict(op="tick", ms=1500), dict(st), dict(op="msg", conn=1, kind="hash_next", blk=3),
              dict(op="fetched", conn=1, kind="next", blk=3), dict(op="drain"), dict(op="tick", ms=1500), dict(op="drain")]
    return dict(g=20, hb=100, chain=5, pre=2, steps=steps)


def scenarios(seed, n):
    rnd = random.Random(seed)
    out = catalogue_scenarios(rnd) + sweep_scenarios(rnd) + pair_scenarios(rnd)
    for i in range(n):
        out.append(scenario(rnd, hostile_p=rnd.choice([0.0, 0.3, 0.5, 0.7])))
    # the same inputs on a lite (spv) client: it trusts what it is given, so only crash freedom is checked
    lite = [dict(s, spv=True) for s in catalogue_scenarios(rnd)]
    for i in range(max(20, n // 4)):
        lite.append(dict(scenario(rnd, hostile_p=rnd.choice([0.3, 0.6])), spv=True))
    return out + lite
