#!/usr/bin/env python3
"""Regenerates MANIFEST.json from the table below (single source of truth for claimed checks)."""
import json, os, subprocess
ROOT = os.path.dirname(os.path.dirname(os.path.abspath(__file__)))

CLAIMED = {
 "C03": dict(cat="model_checking", design="§4 C03", technique="TLA+ spec Chain.tla: TLC model checking + TLC-generated scenarios replayed on the real Blockchain + trace validation (ChainTrace.tla)",
   text="TLC checks on Chain.tla (every block tree / validity / weight / delivery order within the bound) that at every quiescent state ledger, by-height index, on-chain flags and tip describe the same chain, and that the micro-step wind/unwind machine agrees with the big-step semantics. Every behaviour of the bounded model (sampled in the quick tier) plus seeded deep scenarios is replayed on the real Blockchain with real signed blocks; each add_block call is logged with the projected state and TLC validates the trace, evaluating the C03 invariant on every observed state.",
   note="trusted: TLC, harness projection, builder nodes (Block::create on force-wound chains); assumes injective hashes, handler-atomic scheduling, checkpoints/spv/ghost off; exhaustive only within the stated constants"),
 "C04": dict(cat="model_checking", design="§4 C04", technique="TLA+ spec Chain.tla (micro-step wind/unwind machine, liveness + step bound) + trace validation with cfg-guarded step recorder",
   text="TLC checks termination (liveness under weak fairness), the step bound 2(|old|+|new|)+2 and that a failed reorganisation restores the pre-state, for every tree and position of the invalid block within the bound. On the implementation every rejected add_block call is compared field by field with the pre-call projection (tip, ledger, index, flags, stored set, wallet) and the recorded wind/unwind steps are checked against the bound; a step budget in the hook turns a livelock into a verdict and a watchdog catches any other stall.",
   note="same trusted base as C03 plus the cfg(saito_verif) step recorder; liveness is proved on the bounded model only, on the code it is observed as a step bound"),
 "C05": dict(cat="model_checking", design="§4 C05", technique="TLA+ spec Chain.tla fork-choice Decide/Criteria + TLC-generated scenarios + trace validation with real burn fees bound as limb numbers",
   text="The fork-choice rule (strictly longer, at least as heavy, valid block by block, ticket density in every window, tip height monotone, orphans inert) is a TLA+ operator evaluated by TLC both on the bounded model and on every observed tip movement of the real node: a tip move without the criteria, an adoptable block not adopted, a lower tip, or an orphan disturbing the index is reported. Burn fees are the real header values.",
   note="same trusted base as C03; two readings of 'current chain' are admitted for nodes that adopted a chain with unseen ancestry (see DESIGN.md)"),
}

def main():
    props = [json.loads(l) for l in open(os.path.join(ROOT, "properties.jsonl"))]
    checks = []
    na = []
    reasons = json.load(open(os.path.join(ROOT, "tools", "not_applicable.json")))
    for p in props:
        pid = p["id"]
        if pid in CLAIMED:
            c = CLAIMED[pid]
            checks.append({
                "property_id": pid,
                "quick_cmd": "./check %s --tier quick" % pid,
                "thorough_cmd": "./check %s --tier thorough" % pid,
                "evidence_file": "evidence/%s.json" % pid,
                "replay_cmd_template": "./check %s --replay {path}" % pid,
                "engine": "tlc+harness",
                "level_claimed": {"category": c["cat"], "text": c["text"], "design_ref": c["design"]},
                "level_note": c["note"],
                "technique": c["technique"],
            })
        else:
            na.append({"property_id": pid, "reason": reasons.get(pid, "check not built yet (work in progress); the specification module planned for it is described in DESIGN.md")})
    hooks_commits = subprocess.run(["git", "-C", "/repo", "log", "--format=%H %s"], stdout=subprocess.PIPE, text=True).stdout.splitlines()
    hook_commits = [l.split()[0] for l in hooks_commits if l.split(" ", 1)[1].startswith("verif hook")]
    m = {
        "version": 1,
        "setup_cmd": "./setup.sh",
        "hooks": {
            "guard": "--cfg saito_verif",
            "enable": "harness/.cargo/config.toml passes --cfg saito_verif (and --cfg tokio_unstable) in rustflags; the harness has a path dependency on /repo/saito-core, so every check rebuilds saito-core from /repo's working tree with the hooks compiled in",
            "baseline_off_cmd": "tools/baseline.sh",
            "source_commits": hook_commits,
            "add_only": True,
        },
        "engines": [
            {"name": "tlc+harness", "path": "check", "serves_properties": sorted(CLAIMED.keys()),
             "kind_free_text": "explicit TLA+ specification (spec/*.tla) checked with TLC; TLC-generated behaviours replayed on the real saito-core objects by a Rust harness; recorded ndjson traces validated by TLC against *Trace.tla monitors"},
        ],
        "checks": checks,
        "not_applicable": na,
        "notes": "All properties are decided with the TLA+ specification family in spec/ (see DESIGN.md). known_findings.json lists repaired defects (fixed:) and recorded findings.",
    }
    with open(os.path.join(ROOT, "MANIFEST.json"), "w") as f:
        json.dump(m, f, indent=1)
        f.write("\n")

main()
