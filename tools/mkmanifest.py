#!/usr/bin/env python3
"""Regenerates MANIFEST.json from the table below (single source of truth for claimed checks)."""
import json, os, subprocess
ROOT = os.path.dirname(os.path.dirname(os.path.abspath(__file__)))

CLAIMED = {
 "C03": dict(cat="model_checking", design="§4 C03", technique="TLA+ spec Chain.tla: TLC model checking + TLC-generated scenarios replayed on the real Blockchain + trace validation (ChainTrace.tla)",
   text="TLC checks on Chain.tla (every block tree / validity / weight / delivery order within the bound) that at every quiescent state ledger, by-height index, on-chain flags and tip describe the same chain, and that the micro-step wind/unwind machine agrees with the big-step semantics. Every behaviour of the bounded model (sampled in the quick tier) plus seeded deep scenarios is replayed on the real Blockchain with real signed blocks; each add_block call is logged with the projected state and TLC validates the trace, evaluating the C03 invariant on every observed state.",
   note="trusted: TLC, harness projection, builder nodes (Block::create on force-wound chains); assumes injective hashes, handler-atomic scheduling, checkpoints/spv/ghost off; exhaustive only within the stated constants"),
 "C04": dict(cat="model_checking", design="§4 C04", technique="TLA+ spec Chain.tla (micro-step wind/unwind machine, liveness + step bound) + trace validation with cfg-guarded step recorder",
   text="TLC checks termination (liveness under weak fairness), the step bound 2(|old|+|new|)+2 and that a failed reorganisation restores the pre-state, for every tree and position of the invalid block within the bound. On the implementation every rejected add_block call is compared field by field with the pre-call projection (tip, ledger, index, flags, stored set, wallet) and the recorded wind/unwind steps are checked against the bound; a step budget in the hook turns a livelock into a verdict and a watchdog catches any other stall.",
   note="same trusted base as C03 plus the cfg(saito_verif) step recorder; liveness is proved on the bounded model only, on the code it is observed as a step bound"),
 "C05": dict(cat="model_checking", design="§4 C05", technique="TLA+ spec Chain.tla fork-choice Decide/Criteria + TLC-generated scenarios + trace validation with real burn fees bound as limb numbers",
   text="The fork-choice rule (strictly longer, at least as heavy, valid block by block, ticket density in every window, tip height monotone, orphans inert) is a TLA+ operator evaluated by TLC both on the bounded model and on every observed tip movement of the real node: a tip move without the criteria, an adoptable block not adopted, a lower tip, or an orphan disturbing the index is reported. Burn fees are the real header values.",
   note="same trusted base as C03; two readings of 'current chain' are admitted for nodes that adopted a chain with unseen ancestry (see DESIGN.md)"),
 "C01": dict(cat="model_checking", design="§4 C01", technique="TLA+ spec Ledger.tla validity rules (TxViolations/BlockViolations) + MC_Ledger bounded model with adversary edit catalogue (TLC exhaustive + -simulate GEN) + trace validation (LedgerTrace.tla)",
   text="The spending rules (input exists and unspent on this chain, inside the window, owned by the signer, not duplicated, signature valid, privileged types only from consensus code) are one TLA+ operator. TLC checks the bounded ledger model with an adversary applying the edit catalogue at every position, emits its behaviours as scenarios, and validates the real node's trace: for every block the node adopts, every transaction is judged by the operator against the monitor's own replayed ledger; for every pool admission likewise.",
   note="trusted: TLC, harness projection, transaction descriptions logged by construction (signer, signature validity), builder nodes; NFT/staking-on configurations not exercised"),
 "C02": dict(cat="model_checking", design="§4 C02", technique="TLA+ Supply equation over limb numbers evaluated by TLC on every accepted block of recorded traces + MC_Ledger SupplyConserved invariant",
   text="Supply = in-window non-bound outputs + treasury + graveyard + unpaid + fees is computed in unbounded (limb) arithmetic by the TLA+ monitor from the projected ledger and the tip header after every accepted block and compared with the genesis issuance; per transaction outputs<=inputs is checked in unbounded arithmetic (wrap-around edits included).",
   note="independent of the node's own check_total_supply; amounts logged as base-2^21 limb triples"),
 "C06": dict(cat="model_checking", design="§4 C06", technique="block-level edit catalogue replayed on real blocks; LedgerTrace.tla rejects acceptance of an edited block",
   text="Every honest block of the scenarios can be edited after signing (transaction dropped, duplicated, swapped, payload changed, root zeroed, re-signed by another key, unsigned header change); the monitor requires that an effective edit is never adopted. The injectivity idealisation lives in the spec; the verdict comes from the real merkle/signature code.",
   note="edits are applied to builder-produced blocks delivered to a node that has not seen the original"),
 "C07": dict(cat="model_checking", design="§4 C07", technique="node's own producer (Mempool::bundle_block) driven by TLC/seeded scenarios; produced block must be adopted by producer and replica; honest builder blocks judged valid by Ledger.tla must be accepted",
   text="Whenever the node's producer emits a block it is serialised, delivered to the producer and to a replica holding the same chain, and both must adopt it; additionally every block produced by Block::create on an honest branch whose transactions satisfy the spec's rules must be accepted.",
   note="pool contents from the MC_Ledger pool actions and the seeded economy generator (fees, paths, tickets, window wrap)"),
 "C11": dict(cat="model_checking", design="§4 C11", technique="TLC on Node.tla/MC_Node.tla (handler protocol: no crash outcome, NonInterference as an action property, completion of honest synchronisation under weak fairness) + TLC-simulated behaviours replayed on a whole node (routing, verification and consensus handlers stepped call by call) + trace validation against NodeTrace.tla of a twin run (node with / without the hostile inputs)",
   text="Node.tla has one action per handler call (connection events, announcements, fetched blocks, transactions, junk, one item of an internal queue); hostile input never changes HonestView, the tip is monotone, only valid items reach the consensus queue, and honest synchronisation completes under fairness whatever hostile input is interleaved. Behaviours of the bounded model (TLC -simulate) and a catalogue of 55 hostile message / fetched-block kinds (before and after the attacker's handshake, from opened and never-opened connections, floods beyond the rate limits, partially drained internal queues) are replayed on two real nodes in lockstep - one receives everything, the other only the acceptable inputs. NodeTrace demands that every handler call returns (panic or 20 s stall = violation), that the honest-visible projections (tip, chain, spendable set, pool, honest peers' records and fetch queues, messages sent to honest peers) stay equal, and that both end on the honest tip. Panics in the ledger scenario family (adversarial blocks and transactions) are reported here too.",
   note="hostile = rejected-by-construction inputs of the catalogue; sequences are sampled (simulation + random), exhaustive only in the bounded model"),
 "C12": dict(cat="fault_enumeration", design="§4 C12", technique="TLC on Storage.tla (non-atomic block-file writes, crash at any point, the restart procedure of on_init with its abort-at-first-undecodable-file and delete-unreferenced-files steps) + enumeration of crash images (journal prefix x torn-write class) and clean restarts on the real node, validated against LedgerTrace.tla (C12 checks)",
   text="Storage.tla models one file per block written in two steps, crashes between any two steps, and restart as the code does it (files in name order up to the first undecodable one, blocks offered in that order, unreferenced files deleted); TLC checks that the node always comes up on a block it knew (the old tip, an ancestor or a known branch block), holds every file it indexes, leaves no torn file behind and can be extended - and that the unrestricted 'same tip after clean restart' does not hold with competing branches (sensitivity, see known findings). On the real node every generated history (forks, reorganisations, pruning, rebroadcast) is cut after prefixes of its storage journal with the last block file complete, absent or torn at five byte classes; each image is booted through ConsensusThread::on_init on a scratch node, which must not panic, must come up on a known block with the supply intact and must accept one more honest block; clean restarts mid-history and at the end must reproduce tip, spendable in-window outputs and supply.",
   note="torn writes at byte-class boundaries; long journals are cut at sampled prefixes; the wallet file and issuance file are not crash-tested"),
 "C13": dict(cat="model_checking", design="§4 C13", technique="TLA+ AtrViolations + MC_Ledger Rebroadcast model (NothingExpiredLingers) + trace validation over window-wrapping histories",
   text="For every adopted block past the window the monitor computes the set of outputs leaving the window from its own ledger and checks that rebroadcast transactions consume only those, each once, preserve the owner and produce ATR outputs; spending the original after rebroadcast is part of the adversary catalogue (spent_input).",
   note="G in {2,3,4,6}; NFT bound triples not generated"),
 "C14": dict(cat="model_checking", design="§4 C14", technique="MC_Ledger pool actions (PoolNoShare, PoolSpendsLive) + trace validation of pool/reservation projections after every operation",
   text="After every submit, block and bundle operation the monitor checks on the projected pool: no two pooled transactions share an input, every pooled transaction is valid against the observed ledger, no unspent output is reserved without a pooled spender, a valid unconflicted Normal transaction is admitted, and a declined bundle leaves pool and reservations unchanged.",
   note="pool projection maps signatures to scenario transaction ids; the node's own staking transaction is ignored"),
 "C19": dict(cat="model_checking", design="§4 C19", technique="wallet projection checked by LedgerTrace.tla after every operation",
   text="After every operation: balance = sum of listed unspent slips (limb arithmetic); on reorg-free histories with nothing pending the wallet's unspent set equals the ledger's in-window outputs of the node key.",
   note="wallet-built transactions (create_with_multiple_payments) are covered by the dedicated wallet family (see evidence)"),
 "C15": dict(cat="model_checking", design="§4 C15", technique="TLC on Sync.tla (transcription of generate_fork_id / generate_last_shared_ancestor checked for all p <= a, b <= N; exchange with concurrent out-of-order fetch completions: NothingSkipped, Converges under weak fairness) + two whole real nodes joined by an in-memory network whose scheduler is the harness + trace validation against SyncTrace.tla",
   text="Sync.tla transcribes the fork identifier and the common-ancestor estimate with the real weights; TLC shows the estimate is never later than the fork point for every prefix and pair of chain lengths up to the bound, that every needed block is announced, and that the syncing node reaches the peer's tip under weak fairness for every bounded (prefix, own blocks, peer blocks, batch) - and that the same model with the pinned orphan rule does not (sensitivity). Two real nodes (routing, verification, consensus handlers; handshake, chain request, header-hash stream, fetch scheduler, block files served by the peer) are connected by the harness, which picks the next message, fetch completion or internal queue item (fifo, lifo, seeded random; batch 1..10); SyncTrace requires every run to end with the syncing node on the peer's tip, every needed block announced, no panic, and every estimate computed by the real functions on real chains (lengths straddling the checkpoints 10..75) to equal the transcription and not exceed the fork point.",
   note="hashes injective in the model (two-byte fork-id fragments can collide in reality); schedules sampled beyond the bounded model"),
 "C16": dict(cat="model_checking", design="§4 C16", technique="TLA+ spec FetchSched.tla transcribing BlockchainSyncState; TLC exhaustive safety + liveness (weak fairness) on bounded instances; -simulate GEN; exact trace validation of every scheduler call (FetchSchedTrace.tla)",
   text="The scheduler's state and every branch are transcribed into TLA+ functions (Build/Select/Fetched/Failed/Remove). TLC checks in-flight<=batch, no unsigned underflow, no block in flight twice per peer, retry bound, per-round height order and (under weak fairness) that every queued block is eventually requested, exhaustively for small peer/hash universes including a peer announcing one hash under two ids. Every call of the real scheduler in TLC-generated and random scenarios is compared with the specification's function of the observed pre-state and the invariants are evaluated on every observed state; MaxRetries is bound to the real constant 500 in validation.",
   note="trusted: TLC, cfg(saito_verif) accessors of BlockchainSyncState, harness sched.rs; liveness is proved on the bounded model only"),
 "C17": dict(cat="model_checking", design="§4 C17", technique="TLA+ spec Handshake.tla with an active attacker (drop/reorder/replay/redirect, signing oracle of honest nodes); TLC exhaustive to a depth bound + -simulate GEN + named attack schedules replayed on real Network/Peer with real signatures; HandshakeTrace.tla",
   text="The acceptance precondition (valid signature by K over the challenge stored for this very connection, compatible version, key of a connection never changes) and the no-disturbance predicates are TLA+ operators. TLC explores every attacker schedule up to the bound on the model; schedules are replayed against the real Network/Peer objects with real keys, real challenges read from the node's outbound messages and signatures the attacker can actually obtain; the monitor flags any connection that becomes authenticated without the precondition, an unconsumed challenge, a rejected response that disturbs another connection or the key map, and any handler panic.",
   note="relay of a genuine signature over this connection's challenge is within the property as stated (DESIGN 3.9a); rate limiting is not exercised (clock advances 1 s per message)"),
 "C18": dict(cat="model_checking", design="§4 C18", technique="TLA+ spec LiteBlock.tla (merkle tree, aligned-subtree placeholders, projection, root recomputation) checked exhaustively by TLC for n<=9/11; every (n, key pattern) replayed on real generate_lite_block + wire round trip + real merkle recomputation; LiteBlockTrace.tla",
   text="TLC proves on the model, for every transaction count up to the bound and every key pattern, that the reference projection tiles the block with kept transactions and aligned complete subtrees and that the root recomputed from the lite items equals the full root (and that a misaligned placeholder is rejected). The same cases are executed on the real code: real signed blocks, generate_lite_block, serialisation, deserialisation, generate() and the real merkle recomputation; the monitor checks tiling/alignment, leaf hashes after the wire trip, presence of every touching transaction, identity of id/hash/signature/header and recomputability of the commitment.",
   note="exhaustive for n<=9 (quick) / n<=11 (thorough) incl. variants; random patterns up to 64 transactions; merging strategy left free"),
 "C08": dict(cat="model_checking", design="§4 C08", technique="TLC on MC_Work.tla (case space of path shape x work relative to requirement x elapsed-time class, design-level invariants on the reference definitions) + TLC-generated cases replayed on the real node + trace validation against LedgerTrace.tla (C08 checks)",
   text="Ledger.tla defines the work a transaction delivers to a creator (nothing without a contiguous path ending at the creator, the fee halved rounding up per further hop), the requirement (burn fee / elapsed ms, zero from two heartbeats on) and payout eligibility. TLC checks monotonicity/zero/shape statements on the definitions and emits all 462 gating cases (11 path shapes incl. broken, self-hop at the first / middle / last hop, forged hop signature, not ending at the creator x work = requirement-1/0/+1 x 7 elapsed-time classes x 2 ticket seeds); the real node runs them, 192+ lottery scenarios (ticket seeds over blocks of routed fee-paying transactions) and economy scenarios. The monitor recomputes work from inputs, outputs and hops of every wound block (accepted-with-insufficient-routing-work, block-work-differs-from-definition, bad-routing-path accepted), checks every output of every fee transaction against the eligible keys of the blocks being paid and their collected fees, and checks samples of the real requirement function (boundary grid up to 2^64-1) for monotonicity, the zero point and agreement with the definition.",
   note="monotonicity of the floating-point requirement function is decided on a sampled grid only; staking payouts off"),
 "C09": dict(cat="translation_validation", design="§4 C09", technique="TLA+ reference layouts (Wire.tla) evaluated by TLC on the fields of every generated value and compared with the real encoder's bytes; MC_Wire self-check of the layouts",
   text="Wire.tla is an independent description of every wire record (slip, hop, transaction, block full/header, every peer message tag, handshake, chain requests, ghost-chain sync, API messages, key lists, version, ticket). For every generated value (all enum variants, 0/1/254/255 slips, empty and 64 KiB payloads, 0..8 hops, boundary integers, distinct non-zero fields) TLC computes the reference encoding from the struct fields and compares it with the bytes of the real encoder; the re-decoded fields, the predicted size, re-encoding, hash and signature verdict across the wire are compared as well.",
   note="differential against a reference codec over generated values, not a proof; disk/wallet/snapshot formats only through their wire forms (see DESIGN §5)"),
 "C10": dict(cat="exploration", design="§4 C10", technique="systematic mutation of valid encodings (every truncation, boundary values in every count field, bit flips) + random strings fed to every decoder under catch_unwind with an allocation meter; outcome alphabet and allocation bound checked by WireTrace.tla",
   text="Every decoder reachable from peer or disk bytes is called on every truncation of valid encodings of every format and message tag, on encodings whose count/length fields are set to boundary values, on single-bit corruptions and on random strings; a panic or a peak allocation above 16*len+4096 bytes is a violation (the process being killed counts too).",
   note="exploration: systematic + random, exhaustive only over truncation points of the seed encodings"),
}

def main():
    props = [json.loads(l) for l in open(os.path.join(ROOT, "properties.jsonl"))]
    checks = []
    na = []
    reasons = json.load(open(os.path.join(ROOT, "tools", "not_applicable.json")))
    for p in props:
        pid = p["id"]
        if pid in CLAIMED:
            c = CLAIMED[pid]
            checks.append({
                "property_id": pid,
                "quick_cmd": "./check %s --tier quick" % pid,
                "thorough_cmd": "./check %s --tier thorough" % pid,
                "evidence_file": "evidence/%s.json" % pid,
                "replay_cmd_template": "./check %s --replay {path}" % pid,
                "engine": "tlc+harness",
                "level_claimed": {"category": c["cat"], "text": c["text"], "design_ref": c["design"]},
                "level_note": c["note"],
                "technique": c["technique"],
            })
        else:
            na.append({"property_id": pid, "reason": reasons.get(pid, "check not built yet (work in progress); the specification module planned for it is described in DESIGN.md")})
    hooks_commits = subprocess.run(["git", "-C", "/repo", "log", "--format=%H %s"], stdout=subprocess.PIPE, text=True).stdout.splitlines()
    hook_commits = [l.split()[0] for l in hooks_commits if l.split(" ", 1)[1].startswith("verif hook")]
    m = {
        "version": 1,
        "setup_cmd": "./setup.sh",
        "hooks": {
            "guard": "--cfg saito_verif",
            "enable": "harness/.cargo/config.toml passes --cfg saito_verif (and --cfg tokio_unstable) in rustflags; the harness has a path dependency on /repo/saito-core, so every check rebuilds saito-core from /repo's working tree with the hooks compiled in",
            "baseline_off_cmd": "tools/baseline.sh",
            "source_commits": hook_commits,
            "add_only": True,
        },
        "engines": [
            {"name": "tlc+harness", "path": "check", "serves_properties": sorted(CLAIMED.keys()),
             "kind_free_text": "explicit TLA+ specification (spec/*.tla) checked with TLC; TLC-generated behaviours replayed on the real saito-core objects by a Rust harness; recorded ndjson traces validated by TLC against *Trace.tla monitors"},
        ],
        "checks": checks,
        "not_applicable": na,
        "notes": "All properties are decided with the TLA+ specification family in spec/ (see DESIGN.md). known_findings.json lists repaired defects (fixed:) and recorded findings.",
    }
    with open(os.path.join(ROOT, "MANIFEST.json"), "w") as f:
        json.dump(m, f, indent=1)
        f.write("\n")

main()
