"""Seeded random ledger scenarios beyond the TLC bound: fees, routing paths, golden tickets,
several genesis periods, chains long enough to wrap the window more than once, forks and
reorganisations, adversarial edits at random positions, pool operations and bundling.

The generator keeps a light model of which outputs exist (names, owner, creating height) so that
most honest spends are buildable; anything it mispredicts (e.g. an amount changed by a rebroadcast
fee) shows up as a 'Skip' event in the trace, never as an alarm."""
import random

TX_EDITS = ["forge_sig", "no_sig", "flip_sig", "tamper_output", "type_fee", "type_atr", "type_issuance",
            "type_spv", "type_vip", "type_stake", "dup_input", "inflate_input", "phantom_input", "overspend", "wrap_outputs", "zero_lead_foreign"]
BLOCK_EDITS = ["drop_last_tx", "dup_first_tx", "swap_txs", "tamper_tx_data", "zero_root_drop_tx",
               "resign_other_key", "bump_timestamp_nosign", "bump_treasury_resign", "bump_burnfee_resign", "atr_redirect",
               "append_uncounted_tx"]


SIDE_EDITS = ["drop_last_tx", "swap_txs", "tamper_tx_data", "resign_other_key", "flip_block_sig", "dup_first_tx", "atr_redirect",
              "append_uncounted_tx"]


class Gen:
    def __init__(self, rnd, g, nkeys, big=False):
        self.rnd = rnd
        self.g = g
        self.keys = ["k%d" % i for i in range(1, nkeys + 1)]
        self.issuance = []
        self.outs = {}      # name -> (owner, bh)
        n = rnd.randint(6, 10)
        for i in range(n):
            k = rnd.choice(self.keys)
            amt = rnd.choice([1000, 5000, 20000, 100000]) if not big else rnd.choice([10 ** 9, 5 * 10 ** 11, 10 ** 15])
            self.issuance.append([k, amt])
            self.outs["g%d" % i] = (k, 1)
        self.h = 1
        self.ntx = 0
        self.steps = []
        self.pool = {}      # txid -> input names
        self.spent = {}
        self.nlabel = 0
        self.last_gt = True
        self.gap_p = 0.3
        self.fee_choices = [1, 2, 7, 50]
        self.small_out_p = 0.0
        self.hb = 100
        self.node_key = None
        self.chain = ["b1"]
        self.snap = {"b1": (dict(self.outs), 1, {})}
        self.orphaned = {}   # outputs that existed only on an abandoned branch

    def spendable(self, h):
        return [n for n, (o, bh) in self.outs.items() if bh + self.g >= h and n not in self.reserved()]

    def reserved(self):
        r = set()
        for ins in self.pool.values():
            r.update(ins)
        return r

    def newtx(self, h, fee_p=0.5, path_p=0.3, two_in_p=0.2):
        cand = self.spendable(h)
        if not cand:
            return None
        x = self.rnd.choice(cand)
        owner = self.outs[x][0]
        ins = [x]
        if self.rnd.random() < two_in_p:
            more = [n for n in cand if n != x and self.outs[n][0] == owner]
            if more:
                ins.append(self.rnd.choice(more))
        self.ntx += 1
        tid = "t%d" % self.ntx
        nouts = self.rnd.choice([1, 2, 2, 3])
        outs = [[self.rnd.choice(self.keys), 0] for _ in range(nouts)]
        fee = self.rnd.choice(self.fee_choices) if self.rnd.random() < fee_p else 0
        if self.small_out_p and self.rnd.random() < self.small_out_p and nouts >= 2:
            # a tiny explicit output that will be too small to pay its rebroadcast fee
            outs[0][1] = self.rnd.choice([1, 20, 150, 400])
        path = []
        if fee and self.rnd.random() < path_p:
            path = [owner, "c"] if self.rnd.random() < 0.6 else [owner, self.rnd.choice([k for k in self.keys if k != owner] or [owner]), "c"]
            path = [p for i, p in enumerate(path) if i == 0 or p != path[i - 1]]
            if len(path) < 2:
                path = []
        return dict(id=tid, signer=owner, ins=ins, outs=outs, fee=fee, path=path)

    def apply(self, tx, h):
        for n in tx["ins"]:
            if n in self.outs:
                self.spent[n] = self.outs.pop(n)
        for i, (o, a) in enumerate(tx["outs"]):
            self.outs["%s.%d" % (tx["id"], i)] = (o, h)

    def rebroadcast(self, h, label):
        if h > self.g + 1:
            for n, (o, bh) in list(self.outs.items()):
                if bh == h - self.g - 1:
                    self.spent[n] = self.outs.pop(n)
                    self.outs["atr:%s@%s.0" % (n, label)] = (o, h)

    def gt_flag(self, h):
        # tickets most of the time, with single gaps (a gap is what defers a payout to the block after next);
        # never two gaps in a row, so that the ticket density rule is met
        if h < 3:
            g = self.rnd.random() < 0.5
        elif self.last_gt and self.rnd.random() < self.gap_p:
            g = False
        else:
            g = True
        self.last_gt = g
        return g

    def good_block(self, parent=None, label=None, tag="good"):
        h = self.h + 1
        label = label or "b%d" % h
        if label in self.snap:
            self.nlabel += 1
            label = "c%d_%d" % (h, self.nlabel)
        txs = []
        for _ in range(self.rnd.choice([1, 1, 2, 3])):
            t = self.newtx(h)
            if t and not (set(t["ins"]) & {n for x in txs for n in x["ins"]}):
                txs.append(t)
        if not txs:
            return False
        st = dict(op="block", label=label, gt=self.gt_flag(h), txs=txs, tag=tag,
                  gap=self.rnd.choice([2, 2, 3, 5]) if parent is None else 2)
        if parent:
            st["parent"] = parent
        self.steps.append(st)
        for t in txs:
            self.apply(t, h)
        self.rebroadcast(h, label)
        self.h = h
        self.chain.append(label)
        self.snap[label] = (dict(self.outs), h, dict(self.spent))
        self.prune_pool()
        return True

    def reorg(self, depth=None, plain=False, force_forged=False, force_edit=None, force_restart=False):
        """a competing branch that forks a few blocks below the tip and ends one block higher"""
        if len(self.chain) < 3:
            return False
        # mostly shallow; sometimes deeper than the depth at which transaction data is dropped from memory
        d = self.rnd.randint(1, min(3 if self.rnd.random() < 0.7 else 6, len(self.chain) - 2))
        if depth is not None:
            d = min(depth, len(self.chain) - 2)
        fork = self.chain[-1 - d]
        old_outs = dict(self.outs)
        old_h, old_spent, old_chain = self.h, dict(self.spent), list(self.chain)
        outs, h, spent = self.snap[fork]
        self.outs, self.h, self.spent = dict(outs), h, dict(spent)
        for n, v in old_outs.items():
            if n not in self.outs and n not in self.spent:
                self.orphaned[n] = v
        self.chain = self.chain[:len(self.chain) - d]
        self.pool = {}   # keep the model simple: pooled transactions are not tracked across a reorg
        parent = fork
        poison = self.rnd.random() < 0.3 and self.spent and not plain
        # the poisoned block is the second or a later one of the branch, sometimes the very first
        self.poison_from = 0 if self.rnd.random() < 0.35 else 1
        forged = (not poison) and (not plain) and self.rnd.random() < 0.25
        first_h = h + 1
        if (not plain) and first_h % (2 * self.g) == 0 and first_h > self.g + 1 and (force_forged or self.rnd.random() < 0.6):
            poison, forged = False, True
        if force_edit:
            poison, forged = False, True
        for i in range(d + 1):
            self.nlabel += 1
            lab = "s%d" % self.nlabel
            if forged and i == 0:
                # the first block of the competing branch - stored as a side block, validated only when the
                # branch overtakes - has been edited under its signed header (C06); the branch must never win
                txs = []
                for _ in range(2):
                    t = self.newtx(self.h + 1, fee_p=0.0, path_p=0.0, two_in_p=0.0)
                    if t and not (set(t["ins"]) & {n for x in txs for n in x["ins"]}):
                        txs.append(t)
                if txs:
                    e = self.rnd.choice(SIDE_EDITS)
                    if first_h % (2 * self.g) == 0 and first_h > self.g + 1:
                        e = "atr_redirect"   # the block that lands in slot 0 of the block ring redirects a rebroadcast
                    if force_edit:
                        e = force_edit
                    self.steps.append(dict(op="block", label=lab, parent=parent, gt=True, txs=txs, bedit=e, tag="bedit-side:" + e, gap=2))
                    par = lab
                    for j in range(d):
                        if j == d - 1 and old_h + 1 <= 2 * self.g and (force_restart or self.rnd.random() < 0.4):
                            # the node is restarted while the edited block is only a stored side block
                            self.steps.append(dict(op="restart", tag="clean"))
                        self.nlabel += 1
                        l2 = "s%d" % self.nlabel
                        t = dict(id="t%d" % (self.ntx + 1), signer=txs[0]["signer"], ins=["%s.0" % txs[0]["id"]],
                                 outs=[[self.rnd.choice(self.keys), 0]], fee=0, path=[])
                        self.ntx += 1
                        txs = [t]
                        self.steps.append(dict(op="block", label=l2, parent=par, gt=True, txs=[t], tag="fork-on-edited", gap=2))
                        par = l2
                self.outs, self.h, self.spent = dict(old_outs), old_h, dict(old_spent)
                self.chain = old_chain
                return True
            if poison and i >= self.poison_from:
                # the competing branch carries a block spending an output that was already spent below the
                # fork point: the reorganisation must fail and leave everything as it was
                n = self.rnd.choice(list(self.spent.keys()))
                self.ntx += 1
                t = dict(id="t%d" % self.ntx, signer=self.spent[n][0], ins=[n], outs=[[self.rnd.choice(self.keys), 0]], fee=0, path=[])
                self.steps.append(dict(op="block", label=lab, parent=parent, gt=True, txs=[t], tag="bad:fork_spends_spent_output", gap=2))
                # the branch goes on over the poisoned block until it is longer than the chain (it must never win);
                # sometimes the node is restarted while the poisoned block is only a stored side block
                par, prev_t = lab, t
                for j in range(i + 1, d + 1):
                    if j == d and self.rnd.random() < 0.5:
                        self.steps.append(dict(op="restart", tag="clean"))
                    self.nlabel += 1
                    l2 = "s%d" % self.nlabel
                    self.ntx += 1
                    t2 = dict(id="t%d" % self.ntx, signer=prev_t["outs"][0][0], ins=["%s.0" % prev_t["id"]],
                              outs=[[self.rnd.choice(self.keys), 0]], fee=0, path=[])
                    self.steps.append(dict(op="block", label=l2, parent=par, gt=True, txs=[t2], tag="fork-on-poisoned", gap=2))
                    par, prev_t = l2, t2
                # the node stays on (or returns to) its old chain: restore the generator's view of it
                self.outs, self.h, self.spent = dict(old_outs), old_h, dict(old_spent)
                self.chain = old_chain
                return True
            if not self.good_block(parent=parent, label=lab, tag="fork"):
                return True
            parent = lab
        return True

    def stale_spend_block(self):
        """spend an output that only ever existed on an abandoned branch"""
        if not self.orphaned:
            return False
        h = self.h + 1
        n = self.rnd.choice(list(self.orphaned.keys()))
        if self.rnd.random() < 0.5:
            # an output of the deepest abandoned block (the one whose data had been dropped from memory)
            low = min(v[1] for v in self.orphaned.values())
            n = self.rnd.choice([k for k, v in self.orphaned.items() if v[1] == low])
        self.ntx += 1
        self.nlabel += 1
        t = dict(id="t%d" % self.ntx, signer=self.orphaned[n][0], ins=[n],
                 outs=[[self.rnd.choice(self.keys), 0]], fee=0, path=[])
        self.steps.append(dict(op="block", label="x%d" % self.nlabel, gt=self.gt_flag(h), txs=[t],
                               tag="bad:orphaned_branch_output"))
        return True

    def prune_pool(self):
        for tid, ins in list(self.pool.items()):
            if any(n not in self.outs for n in ins):
                del self.pool[tid]

    def bad_block(self):
        h = self.h + 1
        t = self.newtx(h, fee_p=0.2, path_p=0.0)
        if not t:
            return False
        kind = self.rnd.random()
        self.nlabel += 1
        label = "x%d" % self.nlabel
        if kind < 0.55:
            t["edit"] = self.rnd.choice(TX_EDITS)
            self.steps.append(dict(op="block", label=label, gt=self.gt_flag(h), txs=[t], tag="bad:" + t["edit"]))
        elif kind < 0.7 and self.spent:
            n = self.rnd.choice(list(self.spent.keys()))
            t["ins"] = [n]
            t["signer"] = self.spent[n][0]
            self.steps.append(dict(op="block", label=label, gt=self.gt_flag(h), txs=[t], tag="bad:spent_input"))
        elif kind < 0.75 and h > self.g + 1:
            leaving = [n for n, (o, bh) in self.outs.items() if bh == h - self.g - 1]
            if not leaving:
                return False
            n = self.rnd.choice(leaving)
            t["ins"] = [n]
            t["signer"] = self.outs[n][0]
            self.steps.append(dict(op="block", label=label, gt=self.gt_flag(h), txs=[t], tag="bad:leaving_input"))
        elif kind < 0.8:
            others = [n for n in self.spendable(h) if self.outs[n][0] != t["signer"]]
            if not others:
                return False
            t["ins"].append(self.rnd.choice(others))
            self.steps.append(dict(op="block", label=label, gt=self.gt_flag(h), txs=[t], tag="bad:foreign_input"))
        else:
            t2 = self.newtx(h, fee_p=0.0, path_p=0.0)
            txs = [t] + ([t2] if t2 and not (set(t2["ins"]) & set(t["ins"])) else [])
            e = self.rnd.choice(BLOCK_EDITS)
            self.steps.append(dict(op="block", label=label, gt=self.gt_flag(h), txs=txs, bedit=e, tag="bedit:" + e))
        return True

    def submit(self):
        h = self.h + 1
        t = self.newtx(h, fee_p=0.6, path_p=0.5)
        if not t:
            return False
        r = self.rnd.random()
        if r < 0.6:
            self.steps.append(dict(op="submit", tx=t, tag="good"))
            self.pool[t["id"]] = t["ins"]
        elif r < 0.85:
            t["edit"] = self.rnd.choice(TX_EDITS)
            self.steps.append(dict(op="submit", tx=t, tag="bad:" + t["edit"]))
        elif self.pool:
            ins = self.rnd.choice(list(self.pool.values()))
            t["ins"] = [ins[0]]
            t["signer"] = self.outs.get(ins[0], ("k1", 0))[0]
            self.steps.append(dict(op="submit", tx=t, tag="bad:conflict"))
        return True

    def bundle(self):
        if not self.pool:
            return False
        h = self.h + 1
        label = "n%d" % h
        self.steps.append(dict(op="bundle", label=label, gt=self.gt_flag(h), gap=60, tag="bundle"))
        # pooled transactions are applied by name; their outputs become spendable
        for st in self.steps:
            if st["op"] == "submit" and st["tx"]["id"] in self.pool:
                self.apply(st["tx"], h)
        self.pool = {}
        self.rebroadcast(h, label)
        self.h = h
        self.chain.append(label)
        self.snap[label] = (dict(self.outs), h, dict(self.spent))
        return True

    def scenario(self, nsteps, bad_p=0.2, pool_p=0.25, reorg_p=0.0, node_key=None):
        for _ in range(nsteps):
            r = self.rnd.random()
            if r < bad_p:
                if self.orphaned and self.rnd.random() < 0.4:
                    self.stale_spend_block()
                else:
                    self.bad_block()
            elif r < bad_p + reorg_p:
                self.reorg() or self.good_block()
            elif r < bad_p + reorg_p + pool_p:
                if self.rnd.random() < 0.3:
                    self.bundle() or self.good_block()
                else:
                    self.submit()
            else:
                self.good_block()
        return dict(g=self.g, hb=self.hb, keys=len(self.keys), issuance=self.issuance,
                    node_key=node_key or self.node_key or self.keys[0],
                    replica=not any(st.get("op") == "restart" for st in self.steps), steps=self.steps)


def dusty_scenario(rnd):
    """high fees (so that the average fee per byte becomes non-zero) and tiny outputs that reach the
    window edge unspent: rebroadcast fees, dust collection, treasury payouts"""
    g = rnd.choice([3, 3, 4])
    gen = Gen(rnd, g, 2)
    gen.issuance = [[rnd.choice(gen.keys), rnd.choice([200000, 500000, 1000000])] for _ in range(rnd.randint(7, 10))]
    gen.outs = {"g%d" % i: (k, 1) for i, (k, a) in enumerate(gen.issuance)}
    gen.snap = {"b1": (dict(gen.outs), 1, {})}
    gen.fee_choices = [3000, 6000, 12000, 25000]
    gen.small_out_p = 0.5
    return gen.scenario(rnd.randint(2 * g + 3, 3 * g + 5), bad_p=rnd.choice([0.0, 0.1]), pool_p=0.0,
                        reorg_p=rnd.choice([0.0, 0.1]))


def work_scenario(rnd):
    """long heartbeat, fees routed to the node's own key, bundling sooner than two heartbeats after the
    parent (routing work needed), conflicting peer blocks that invalidate pooled routed transactions"""
    g = rnd.choice([6, 10])
    gen = Gen(rnd, g, 3)
    gen.hb = 10000
    gen.node_key = "k1"
    gen.issuance = [[rnd.choice(gen.keys), rnd.choice([1000000, 3000000])] for _ in range(10)]
    gen.outs = {"g%d" % i: (k, 1) for i, (k, a) in enumerate(gen.issuance)}
    gen.snap = {"b1": (dict(gen.outs), 1, {})}
    for _ in range(rnd.randint(1, 3)):
        gen.good_block()
    for _round in range(rnd.randint(1, 3)):
        h = gen.h + 1
        # routed, fee paying transactions for the node
        routed = []
        for _ in range(rnd.randint(1, 3)):
            t = gen.newtx(h, fee_p=0.0, path_p=0.0, two_in_p=0.0)
            if not t:
                break
            t["fee"] = rnd.choice([2000, 6000, 9000, 20000, 60000])
            via = rnd.choice([[t["signer"], "k1"], [t["signer"], "k2" if t["signer"] != "k2" else "k3", "k1"]])
            t["path"] = [p for i, p in enumerate(via) if i == 0 or p != via[i - 1]]
            if len(t["path"]) < 2:
                t["path"] = []
            gen.steps.append(dict(op="submit", tx=t, tag="good"))
            gen.pool[t["id"]] = t["ins"]
            routed.append(t)
        r = rnd.random()
        if routed and r < 0.5:
            # a peer's block spends the input of one routed transaction in another way
            victim = rnd.choice(routed)
            gen.ntx += 1
            t2 = dict(id="t%d" % gen.ntx, signer=victim["signer"], ins=list(victim["ins"]),
                      outs=[[rnd.choice(gen.keys), 0]], fee=0, path=[])
            label = "b%d" % h
            gen.steps.append(dict(op="block", label=label, gt=True, txs=[t2], tag="conflict", gap=2))
            gen.apply(t2, h)
            gen.rebroadcast(h, label)
            gen.h = h
            gen.chain.append(label)
            gen.snap[label] = (dict(gen.outs), h, dict(gen.spent))
            gen.prune_pool()
            # something unrouted so that the pool is not empty
            t3 = gen.newtx(gen.h + 1, fee_p=0.0, path_p=0.0)
            if t3:
                gen.steps.append(dict(op="submit", tx=t3, tag="good"))
                gen.pool[t3["id"]] = t3["ins"]
        # the node tries to produce early (one heartbeat after the parent) and, later, late
        gen.steps.append(dict(op="bundle", label="n%d_%d" % (gen.h + 1, _round), gt=True, gap=1, tag="bundle-early"))
        gen.steps.append(dict(op="bundle", label="m%d_%d" % (gen.h + 1, _round), gt=True, gap=3, tag="bundle-late"))
        # whatever happened, continue from the node's tip with peer blocks that do not depend on pooled outputs
        gen.pool = {}
    return dict(g=gen.g, hb=gen.hb, keys=len(gen.keys), issuance=gen.issuance, node_key="k1", replica=True, steps=gen.steps)


def dust_spend_scenario(rnd):
    """an output too small to pay its rebroadcast fee is collected by the chain when its block leaves the window;
    somebody tries to spend it in the collecting block, in a later block, or through the pool"""
    g = rnd.choice([3, 4, 5])
    fee = rnd.choice([20000, 50000])
    dust = rnd.choice([1, 2, 50])
    steps = []
    ntx = [0]

    def tx(signer, ins, outs, fee=0):
        ntx[0] += 1
        return dict(id="t%d" % ntx[0], signer=signer, ins=ins, outs=outs, fee=fee, path=[])

    def blk(label, txs, tag="good"):
        return dict(op="block", label=label, gt=True, txs=txs, tag=tag, gap=2)
    t = tx("k1", ["g0"], [["k2", dust], ["k1", 0]], fee)
    dust_name, carry = t["id"] + ".0", t["id"] + ".1"
    steps.append(blk("b2", [t]))
    h = 2
    collect_h = 2 + g + 1
    delay = rnd.randint(0, g - 1)
    mode = rnd.choice(["block", "block", "pool"])
    while h < collect_h + delay:
        h += 1
        txs = []
        t = tx("k1", [carry], [["k1", 0]], fee if h < collect_h else 0)
        carry = t["id"] + ".0"
        txs.append(t)
        last = (h == collect_h + delay)
        if last and mode == "block":
            txs.append(tx("k2", [dust_name], [["k2", 0]]))
            steps.append(blk("x%d" % h, txs, tag="bad:collected_dust"))
        else:
            steps.append(blk("b%d" % h, txs))
    if mode == "pool":
        steps.append(dict(op="submit", tx=tx("k2", [dust_name], [["k2", 0]]), tag="stale"))
        steps.append(dict(op="bundle", label="n%d" % (h + 1), gt=True, gap=2, tag="bundle"))
    # the chain goes on
    t = tx("k1", [carry], [["k1", 0]])
    steps.append(blk("c%d" % (h + 1), [t]))
    return dict(g=g, hb=100, keys=2, issuance=[["k1", 1000000]] * (g + 3), node_key="k1", replica=True, steps=steps,
                tag="dust-spend")


GENESIS_EDITS = ["drop_all_txs", "drop_last_tx", "swap_txs", "dup_first_tx", "tamper_tx_data", "flip_block_sig", "resign_other_key"]
MIDCHAIN_EDITS = ["drop_last_tx", "swap_txs", "dup_first_tx", "tamper_tx_data", "zero_root_drop_tx", "flip_block_sig", "resign_other_key"]


def first_block_scenarios(rnd):
    """every edit, both ways"""
    return [first_block_scenario(rnd, genesis=e) for e in GENESIS_EDITS] + [first_block_scenario(rnd, mid=e) for e in MIDCHAIN_EDITS]


def first_block_scenario(rnd, genesis=None, mid=None):
    """a fresh node: either the genesis block it is offered first has been edited under its signed header, or it
    joins the chain in the middle (it never sees the first blocks) and the next block it is offered is edited"""
    issuance = [["k1", 100000], ["k2", 50000], ["k1", 70000], ["k2", 30000], ["k1", 20000], ["k2", 10000]]
    ntx = [0]

    def tx(signer, ins, outs, fee=0):
        ntx[0] += 1
        return dict(id="t%d" % ntx[0], signer=signer, ins=ins, outs=outs, fee=fee, path=[])

    steps = []
    if genesis or (mid is None and rnd.random() < 0.4):
        e = genesis or rnd.choice(GENESIS_EDITS)
        steps.append(dict(op="block", label="b2", gt=True, gap=2, tag="good", txs=[tx("k1", ["g0"], [["k2", 0]], 3)]))
        steps.append(dict(op="block", label="b3", gt=True, gap=2, tag="good", txs=[tx("k2", ["g1"], [["k1", 0]], 2)]))
        return dict(g=10, hb=100, keys=2, issuance=issuance, node_key="k1", replica=True, steps=steps, genesis_edit=e, tag="genesis-edit")
    k = rnd.randint(2, 4)
    par = "b1"
    for h in range(2, 2 + k):
        lab = "b%d" % h
        steps.append(dict(op="block", label=lab, parent=par, gt=True, gap=2, tag="held" if h < 1 + k else "good", hold=h < 1 + k,
                          txs=[tx("k1", ["g0"] if h == 2 else ["t%d.0" % (ntx[0])], [["k1", 0]], 1)]))
        par = lab
    e = mid or rnd.choice(MIDCHAIN_EDITS)
    h = 2 + k
    two = [tx("k2", ["g1"], [["k1", 0]], 2), tx("k2", ["g3"], [["k2", 0]], 0)]
    steps.append(dict(op="block", label="x%d" % h, parent=par, gt=True, gap=2, bedit=e, tag="bedit-midchain:" + e, txs=two))
    steps.append(dict(op="block", label="b%d" % h, parent=par, gt=True, gap=2, tag="good", txs=[tx("k2", ["g5"], [["k1", 0]], 2)]))
    return dict(g=10, hb=100, keys=2, issuance=issuance, node_key="k1", replica=False, steps=steps, skip_genesis=True, tag="midchain")


def wallet_scenario(rnd):
    """the node's own wallet (key k1): incoming payments, payments it builds itself around its balance (nothing, one,
    half, everything, one more than everything, with and without fee, several in a row before any is confirmed),
    its own blocks confirming them, peer blocks, the window wrapping over its outputs, a restart, sometimes a reorg"""
    g = rnd.choice([3, 4, 6])
    gen = Gen(rnd, g, 3)
    gen.node_key = "k1"
    gen.issuance = [[rnd.choice(["k1", "k1", "k2"]), rnd.choice([1000, 5000, 20000, 100000])] for _ in range(rnd.randint(7, 10))]
    gen.outs = {"g%d" % i: (k, 1) for i, (k, a) in enumerate(gen.issuance)}
    gen.snap = {"b1": (dict(gen.outs), 1, {})}
    n = rnd.randint(g + 2, 2 * g + 8)
    for i in range(n):
        r = rnd.random()
        if r < 0.45:
            k = rnd.randint(1, 3)
            for _ in range(k):
                gen.steps.append(dict(op="wallet_tx", to=rnd.choice(["k2", "k3", "k1"]), fee=rnd.choice([0, 0, 1, 7, 50]),
                                      frac=rnd.choice(["all", "all-1", "all+1", "half", "half", "one", "zero", "fee-only"]), tag="wallet"))
            if rnd.random() < 0.7:
                gen.steps.append(dict(op="bundle", label="n%d_%d" % (gen.h + 1, i), gt=True, gap=2, tag="bundle"))
                # the generator does not model what the wallet spent: later peer blocks only spend other keys' outputs
                gen.h += 1
                gen.pool = {}
        elif r < 0.9:
            # a peer block, paying the node now and then, never spending the node's outputs
            h = gen.h + 1
            cand = [x for x in gen.spendable(h) if gen.outs[x][0] != "k1"]
            if not cand:
                continue
            x = rnd.choice(cand)
            gen.ntx += 1
            t = dict(id="t%d" % gen.ntx, signer=gen.outs[x][0], ins=[x], outs=[[rnd.choice(["k1", "k1", "k2", "k3"]), 0] for _ in range(rnd.choice([1, 2]))],
                     fee=rnd.choice([0, 3]), path=[])
            gen.steps.append(dict(op="block", label="p%d_%d" % (h, i), gt=gen.gt_flag(h), txs=[t], tag="good", gap=2))
            gen.apply(t, h)
            gen.rebroadcast(h, "p%d_%d" % (h, i))
            gen.h = h
        elif r < 0.95:
            gen.steps.append(dict(op="restart", tag="clean"))
        else:
            gen.steps.append(dict(op="bundle", label="m%d_%d" % (gen.h + 1, i), gt=True, gap=2, tag="bundle"))
            gen.h += 1
    # (the producer refuses to bundle sooner than a key-dependent delay of up to 5 s after its parent: long heartbeat)
    return dict(g=g, hb=3000, keys=3, issuance=gen.issuance, node_key="k1", replica=True, steps=gen.steps, tag="wallet")


def nft_scenario(rnd):
    """the node's wallet creates an NFT (bound slip, payload, bound slip); the chain then grows long enough for the
    triple to be rebroadcast twice; in between the usual peer traffic"""
    g = rnd.choice([3, 4])
    gen = Gen(rnd, g, 3)
    gen.node_key = "k1"
    gen.issuance = [["k1", 400000], ["k1", 300000]] + [["k2", 50000] for _ in range(3 * g + 8)]
    gen.outs = {"g%d" % i: (k, 1) for i, (k, a) in enumerate(gen.issuance)}
    gen.snap = {"b1": (dict(gen.outs), 1, {})}
    nxt = [2]
    chainout = [None]

    def peer_block(tag="good"):
        h = gen.h + 1
        # a chain of payments k2 -> k2 (a fresh genesis output would have left the window by now)
        x = ("g%d" % nxt[0]) if not chainout[0] else chainout[0]
        gen.ntx += 1
        t = dict(id="t%d" % gen.ntx, signer="k2", ins=[x], outs=[["k2", 0]], fee=rnd.choice([0, 3, 500]), path=[])
        chainout[0] = "t%d.0" % gen.ntx
        gen.steps.append(dict(op="block", label="p%d" % h, gt=gen.gt_flag(h), txs=[t], tag=tag, gap=2))
        gen.h = h
    if rnd.random() < 0.5:
        peer_block()
    gen.steps.append(dict(op="nft_create", to=rnd.choice(["k1", "k3"]), tag="nft"))
    gen.steps.append(dict(op="bundle", label="n%d" % (gen.h + 1), gt=True, gap=2, tag="bundle"))
    gen.h += 1
    for i in range(2 * (g + 1) + rnd.randint(1, 3)):
        peer_block()
        if rnd.random() < 0.15:
            gen.steps.append(dict(op="restart", tag="clean"))
    return dict(g=g, hb=3000, keys=3, issuance=gen.issuance, node_key="k1", replica=True, steps=gen.steps, tag="nft")


def lottery_scenario(rnd, seed_no):
    """blocks full of fee-paying transactions with different senders, routers and path lengths, paid out by
    the next ticket (and by the one after, when a block goes without a ticket); the ticket seed selects the
    lottery outcome"""
    gen = Gen(rnd, 10, 3)
    gen.hb = 100
    gen.issuance = [[rnd.choice(gen.keys), rnd.choice([100000, 300000])] for _ in range(12)]
    gen.outs = {"g%d" % i: (k, 1) for i, (k, a) in enumerate(gen.issuance)}
    gen.snap = {"b1": (dict(gen.outs), 1, {})}
    nblocks = rnd.randint(3, 5)
    for b in range(nblocks):
        h = gen.h + 1
        txs = []
        for _ in range(rnd.randint(1, 3)):
            t = gen.newtx(h, fee_p=0.0, path_p=0.0, two_in_p=0.0)
            if not t or set(t["ins"]) & {n for x in txs for n in x["ins"]}:
                continue
            t["fee"] = rnd.choice([0, 1, 2, 5, 1000, 1001, 4097])
            others = [k for k in gen.keys if k != t["signer"]]
            shape = rnd.choice(["none", "direct", "two", "three", "elsewhere"])
            if shape == "direct":
                t["path"] = [t["signer"], "c"]
            elif shape == "two":
                t["path"] = [t["signer"], rnd.choice(others), "c"]
            elif shape == "three" and len(others) >= 2:
                t["path"] = [t["signer"], others[0], others[1], "c"]
            elif shape == "elsewhere":
                t["path"] = [t["signer"], rnd.choice(others)]
            txs.append(t)
        if not txs:
            break
        label = "b%d" % h
        gt = True if b == 0 else gen.gt_flag(h)
        gen.steps.append(dict(op="block", label=label, gt=gt, txs=txs, tag="good", gap=2,
                              gt_seed=seed_no * 131 + b))
        for t in txs:
            gen.apply(t, h)
        gen.h = h
        gen.chain.append(label)
        gen.snap[label] = (dict(gen.outs), h, dict(gen.spent))
    return dict(g=gen.g, hb=gen.hb, keys=len(gen.keys), issuance=gen.issuance, node_key="k1", replica=False,
                steps=gen.steps, tag="lottery")


def needed_grid_scenarios():
    """samples of the requirement function on a boundary-biased grid (ascending elapsed time per burn fee)"""
    out = []
    for hb in (1, 100, 5000, 10000, 2 ** 20, 2 ** 40, 2 ** 62):
        steps = []
        base = sorted(set([0, 1, 2, 3, hb // 2, hb - 1, hb, hb + 1, 2 * hb - 2, 2 * hb - 1, 2 * hb, 2 * hb + 1, 3 * hb, 4 * hb]
                          + [2 ** k for k in range(0, 64, 3)] + [2 ** 63, 2 ** 64 - 1]))
        base = [d for d in base if 0 <= d < 2 ** 64]
        for bf in [0, 1, 2, 3, 99, 10 ** 4, 10 ** 8, 5 * 10 ** 7, 123456789, 10 ** 8 * 3, 2 ** 29 - 1, 2 ** 31, 2 ** 32 + 1, 2 ** 53, 2 ** 53 + 1,
                   2 ** 63, 2 ** 64 - 1]:
            steps.append(dict(op="needed", bf=bf, dts=base))
        out.append(dict(g=10, hb=hb, keys=1, issuance=[["k1", 1000]], node_key="k1", replica=False, steps=steps, tag="needed-grid"))
    return out


def scenarios(seed, n, long_p=0.3):
    rnd = random.Random(seed)
    out = []
    for i in range(n // 6):
        out.append(dusty_scenario(rnd))
    for i in range(n // 6):
        out.append(work_scenario(rnd))
    for i in range(max(2, n // 25)):
        out.append(dust_spend_scenario(rnd))
    out += first_block_scenarios(rnd)
    for i in range(max(6, n // 40)):
        out.append(ring_seam_fork_scenario(rnd))
    for i in range(max(6, n // 40)):
        out.append(forged_side_restart_scenario(rnd))
    for i in range(max(4, n // 12)):
        out.append(wallet_scenario(rnd))
    for i in range(max(3, n // 40)):
        out.append(nft_scenario(rnd))
    for i in range(n - 2 * (n // 6)):
        g = rnd.choice([3, 3, 4, 6])
        big = rnd.random() < 0.1
        gen = Gen(rnd, g, rnd.choice([2, 3]), big=big)
        nsteps = rnd.randint(2 * g + 2, 3 * g + 6) if rnd.random() < long_p else rnd.randint(4, g + 6)
        out.append(gen.scenario(nsteps, bad_p=rnd.choice([0.0, 0.15, 0.3]), pool_p=rnd.choice([0.0, 0.25, 0.4]),
                                reorg_p=rnd.choice([0.0, 0.0, 0.12, 0.2])))
    return out


def fork_choice_scenarios(seed, n):
    """C05 on chains that wrap the retention window (and the block ring, 2G slots) several times: short windows,
    ticket gaps, competing branches that overtake, a few invalid blocks"""
    rnd = random.Random(seed * 7 + 5)
    out = []
    for i in range(n):
        g = rnd.choice([2, 2, 3])
        gen = Gen(rnd, g, 2)
        gen.gap_p = rnd.choice([0.0, 0.3, 0.5])
        nsteps = rnd.randint(2 * g + 3, 5 * g + 6)
        s = gen.scenario(nsteps, bad_p=rnd.choice([0.0, 0.1]), pool_p=0.0, reorg_p=rnd.choice([0.0, 0.15, 0.3]))
        s["tag"] = "fork-choice-long"
        out.append(s)
    return out


def deep_reorg_restart_scenario(rnd):
    """the chain is reorganised deeper than the depth at which transaction data is dropped from memory (the unwound
    blocks have to be reloaded from disk), grows on, and the node is restarted: same tip, same outputs"""
    g = rnd.choice([4, 6])
    gen = Gen(rnd, g, 2)
    for _ in range(rnd.randint(5, 7)):
        gen.good_block()
    gen.reorg(depth=rnd.randint(3, 5), plain=True)
    for _ in range(rnd.randint(0, 2)):
        gen.good_block()
    gen.steps.append(dict(op="restart", tag="clean"))
    for _ in range(2):
        gen.good_block()
    s = gen.scenario(0)
    s["tag"] = "deep-reorg-restart"
    return s


def gap_payout_scenario(rnd):
    """steady fees for a few blocks (so that the smoothed average, which caps payouts, is of the order of the
    current fees), then a block without a ticket whose fees differ a lot from its parent's, then a ticket: the
    payout covers two blocks and must not exceed what they collected"""
    gen = Gen(rnd, 10, 3)
    gen.hb = 100
    gen.issuance = [[rnd.choice(gen.keys), rnd.choice([300000, 500000])] for _ in range(14)]
    gen.outs = {"g%d" % i: (k, 1) for i, (k, a) in enumerate(gen.issuance)}
    gen.snap = {"b1": (dict(gen.outs), 1, {})}
    lead = rnd.randint(1, 4)
    fees = [rnd.choice([5000, 20000, 100000]) for _ in range(lead)]
    small, big = rnd.choice([(1000, 10000), (500, 4000), (2000, 3500), (10000, 1000)])
    fees += [small, big, rnd.choice([0, 1000])]
    tickets = [True] * lead + [rnd.random() < 0.7, False, True]
    for b, (fee, gt) in enumerate(zip(fees, tickets)):
        h = gen.h + 1
        t = gen.newtx(h, fee_p=0.0, path_p=0.0, two_in_p=0.0)
        if not t:
            break
        t["fee"] = fee
        others = [k for k in gen.keys if k != t["signer"]]
        t["path"] = rnd.choice([[t["signer"], "c"], [t["signer"], rnd.choice(others), "c"], []]) if fee else []
        label = "b%d" % h
        gen.steps.append(dict(op="block", label=label, gt=gt, txs=[t], tag="good", gap=rnd.choice([4, 5]), gt_seed=b * 17 + lead))
        gen.apply(t, h)
        gen.h = h
        gen.chain.append(label)
        gen.snap[label] = (dict(gen.outs), h, dict(gen.spent))
    return dict(g=gen.g, hb=gen.hb, keys=len(gen.keys), issuance=gen.issuance, node_key="k1", replica=False,
                steps=gen.steps, tag="gap-payout")


def ring_seam_fork_scenario(rnd):
    """a competing branch whose first block replaces the block at a height that is a multiple of 2G (slot 0 of the
    block ring) and redirects a rebroadcast; the branch must never win"""
    g = rnd.choice([3, 3, 4])
    gen = Gen(rnd, g, 2)
    m = rnd.choice([1, 1, 2])
    extra = rnd.randint(0, min(2, g - 2))
    while gen.h < 2 * g * m + extra:
        if not gen.good_block():
            break
    gen.reorg(depth=extra + 1, force_forged=True)
    for _ in range(2):
        gen.good_block()
    s = gen.scenario(0)
    s["tag"] = "ring-seam-fork"
    return s


def forged_side_restart_scenario(rnd):
    """a side block whose signature (or creator) was edited is stored, the node restarts (the block is read back from
    its own block directory), and the branch then grows past the chain: it must not win"""
    g = rnd.choice([4, 6])
    gen = Gen(rnd, g, 2)
    for _ in range(rnd.randint(2, 4)):
        gen.good_block()
    gen.reorg(depth=rnd.randint(1, 2), force_edit=rnd.choice(["flip_block_sig", "resign_other_key", "tamper_tx_data", "drop_last_tx"]),
              force_restart=True)
    for _ in range(2):
        gen.good_block()
    s = gen.scenario(0)
    s["tag"] = "forged-side-restart"
    return s
