"""C08: routing work gating and payouts (Ledger.tla C08 operators; MC_Work: case space + design-level statements;
LedgerTrace: TV of the real node and of the requirement function)."""
import json
import os
import random
import time

import gen_ledger
from chk_ledger import run_harness, norm_why
from vlib import *

WINV = ["PrintScenario", "WorkShape", "WorkMonotoneInFee", "RequirementMonotone", "RequirementZeroAfterTwoHeartbeats",
        "RequirementPositiveBefore"]
N = {"quick": dict(lottery=192, economy=180), "thorough": dict(lottery=3000, economy=4000)}


def work_cases(wd):
    cfg = os.path.join(wd, "MC_Work.cfg")
    write_cfg(cfg, "Spec", {}, invariants=WINV)
    txt = open(cfg).read().replace("CONSTANTS\n", "")
    open(cfg, "w").write(txt)
    rc, out = tlc("MC_Work.tla", cfg, wd, workers=1, timeout=600)
    if not tlc_ok(out):
        raise ToolError("MC_Work: " + tlc_error_summary(out))
    return printed(out, "SCN"), tlc_stats(out)


def run(pid, t, replay=None):
    t0 = time.time()
    wd = workdir(pid)
    rnd = random.Random(seed())
    build_harness()
    cases, (dist, gen_n) = work_cases(wd)
    log("MC_Work: %d cases" % len(cases))
    if replay:
        with open(replay) as f:
            scns = [json.load(f)["scenario"]]
    else:
        scns = list(cases)
        scns += gen_ledger.needed_grid_scenarios()
        scns += [gen_ledger.lottery_scenario(rnd, i) for i in range(N[t]["lottery"])]
        scns += [gen_ledger.gap_payout_scenario(rnd) for i in range(N[t]["lottery"] // 6)]
        scns += gen_ledger.scenarios(seed() + 8, N[t]["economy"])
    spath = os.path.join(wd, "scenarios.jsonl")
    with open(spath, "w") as f:
        for s in scns:
            f.write(json.dumps(s) + "\n")
    tpath = os.path.join(wd, "trace.ndjson")
    stalled = run_harness("ledger", spath, tpath)
    cfg = os.path.join(wd, "LedgerTrace.cfg")
    write_cfg(cfg, "TraceSpec", {}, invariants=["ReportBad"], postcondition="TraceDone")
    txt = open(cfg).read().replace("CONSTANTS\n", "")
    open(cfg, "w").write(txt)
    chunks, nev = split_trace(tpath, wd, 5000)
    bad, consumed = validate_traces("LedgerTrace.tla", cfg, chunks, wd, par=8)
    mine = [b for b in bad if b["prop"] == pid]
    log("TV: %d events in %d chunks, %d divergences for %s (%d other)" % (consumed, len(chunks), len(mine), pid, len(bad) - len(mine)))

    # what the traces exercised
    st = dict(gated_accept=0, gated_reject=0, payouts=0, payout_keys=set(), needed_samples=0, blocks=0, skips=0, routed_blocks=0)
    for ln in open(tpath):
        e = json.loads(ln)
        if e["ev"] == "Needed":
            st["needed_samples"] += 1
        elif e["ev"] == "Skip":
            st["skips"] += 1
        elif e["ev"] == "Block":
            st["blocks"] += 1
            nz = any(x != 0 for x in e["hdr"]["needed"])
            if nz and e["res"] == "AddedLc":
                st["gated_accept"] += 1
            elif nz and e["res"] == "Invalid":
                st["gated_reject"] += 1
            if any(tx["hops"] for tx in e["txs"]):
                st["routed_blocks"] += 1
            if e["res"] == "AddedLc":
                for tx in e["txs"]:
                    if tx["type"] == 1 and tx["auto"]:
                        for o in tx["outs"]:
                            st["payouts"] += 1
                            st["payout_keys"].add((o["owner"], o["kind"]))
    if not replay and (st["gated_accept"] == 0 or st["gated_reject"] == 0 or st["payouts"] == 0 or st["needed_samples"] == 0):
        raise ToolError("C08 scenarios exercised nothing: %r" % st)
    st["payout_keys"] = sorted("%s/%d" % k for k in st["payout_keys"])

    known = load_known()
    by_scn = {}
    for b in mine:
        by_scn.setdefault(b["scn"], []).append(b)
    violations, known_hits = [], []
    for k, bs in sorted(by_scn.items()):
        unmatched = []
        for b in bs:
            stp = scns[k]["steps"][b["i"] - 1] if b["i"] > 0 else {}
            sig = dict(kind="trace", why=norm_why(b["why"]), res=b["res"], tag=str(stp.get("tag", "")), op=stp.get("op", "genesis"))
            kf = match_known(pid, sig, known)
            if kf:
                known_hits.append(kf)
            else:
                unmatched.append(dict(sig, step=b["i"], detail=b["why"]))
        if unmatched:
            path = write_replay(pid, dict(property=pid, scenario=scns[k], divergences=unmatched, seed=seed(), tier=t))
            violations.append((unmatched[0], path))
    coverage = dict(
        states=dist, transitions=gen_n, traces_validated_against_impl=len(scns) - len(stalled), evaluations=consumed,
        distinct_nontrivial=len(cases) + N[t]["lottery"],
        rule="non-trivial = gating case (path shape x work relative to requirement x elapsed-time class, all 462 from MC_Work) or "
             "lottery scenario (distinct ticket seed over blocks of routed fee-paying transactions); economy scenarios add payouts "
             "across forks, rebroadcasts and ticket gaps; the requirement function is sampled on a boundary grid",
        exercised=st, samples=[scns[0], scns[min(len(cases) + 8, len(scns) - 1)]], exhaustive=False,
        design_invariants=WINV[1:],
        divergences_this_property=len(mine), known_findings_matched=len(set(k["id"] for k in known_hits)),
        checker_cmd="tlc MC_Work.tla (cases + design-level invariants); harness/bin/ledger; tlc LedgerTrace.tla (TV)",
        trusted_base=["TLC 1.8.0", "harness projection (ledger_run.rs)", "hops logged from the transaction's path field, fees recomputed by the monitor from inputs/outputs"],
    )
    write_evidence(pid, t, "model_checking", coverage,
                   ["hashes injective, signatures unforgeable", "staking off; payouts = miner + router outputs of the fee transaction",
                    "the monotonicity and zero statements about the floating-point requirement function are checked on a sampled grid (exploration), "
                    "and on the reference definition by TLC for a bounded grid",
                    "eligible = the ticket's key, any key on a routing path of a paid block's transaction, the sender of a path-less one (the code's documented rule)"],
                   time.time() - t0, len(violations))
    return finish(pid, violations, known_hits)
