"""C12: Storage.tla (block files, torn writes, restart procedure) + restart / crash images of the real node (ledger harness)."""
import json
import os
import random
import time

import gen_ledger
from chk_ledger import run_harness, norm_why
from vlib import *

N = {"quick": 70, "thorough": 900}
SCAN = {"quick": 14, "thorough": 40}
INV = ["TypeOK", "RestartLandsOnKnownBlock", "IndexedBlocksOnDisk", "TipExtendable"]
PROP = ["RestartKeepsAncestorOrBranch", "CleanRestartSameTip", "NoTornAfterRestart"]


def scenarios(rnd, n, scan):
    out = []
    for i in range(n):
        g = rnd.choice([3, 3, 4, 6])
        gen = gen_ledger.Gen(rnd, g, 2)
        kind = i % 4
        if i % 8 == 5:
            out.append(gen_ledger.deep_reorg_restart_scenario(rnd))
            out[-1]["replica"] = False
            continue
        if kind == 3:
            s = gen_ledger.dusty_scenario(rnd)
        else:
            s = gen.scenario(rnd.randint(g + 3, 2 * g + 8), bad_p=rnd.choice([0, 0.1, 0.2]), pool_p=0.0, reorg_p=rnd.choice([0, 0, 0.2, 0.3]))
        steps = s["steps"]
        # restarts at one or two points in the middle, a scan of crash images at the end, then a final restart and more blocks
        for _ in range(rnd.choice([1, 2])):
            steps.insert(rnd.randint(1, max(1, len(steps) - 1)), dict(op="restart", tag="clean"))
        steps.append(dict(op="crashscan", amount=scan, tag="scan"))
        steps.append(dict(op="restart", tag="clean"))
        s["replica"] = False
        out.append(s)
    return out


def run(pid, t, replay=None):
    t0 = time.time()
    wd = workdir(pid)
    rnd = random.Random(seed())
    build_harness()
    dist = gen_n = 0
    cov = {}
    if replay:
        scns = [json.load(open(replay))["scenario"]]
    else:
        cfg = os.path.join(wd, "MC_Storage.cfg")
        write_cfg(cfg, "Spec", {"N": 4 if t == "quick" else 5}, invariants=INV, properties=PROP)
        open(cfg, "a").write("CONSTANT SideParent <- SP\n")
        rc, out = tlc("MC_Storage.tla", cfg, wd, workers=4, timeout=900, extra=["-coverage", "1"], heap="4g")
        if not tlc_ok(out):
            raise ToolError("MC_Storage: " + tlc_error_summary(out))
        dist, gen_n = tlc_stats(out)
        cov = action_coverage(out)
        for a in ("Receive", "FinishWrite", "Crash", "Restart"):
            if cov.get(a, 0) == 0:
                raise ToolError("MC_Storage: action %s never taken" % a)
        cfg = os.path.join(wd, "MC_Storage_forks.cfg")
        write_cfg(cfg, "Spec", {"N": 3}, properties=["CleanRestartSameTipWithForks"])
        open(cfg, "a").write("CONSTANT SideParent <- SP\n")
        rc, out = tlc("MC_Storage.tla", cfg, wd, workers=2, timeout=300, extra=["-noGenerateSpecTE"], heap="2g")
        if "CleanRestartSameTipWithForks" not in out or "violated" not in out:
            raise ToolError("MC_Storage lost its sensitivity: the replay-order dependence of the restarted tip is no longer reproduced")
        log("MC_Storage: %d distinct states" % dist)
        scns = scenarios(rnd, N[t], SCAN[t])
    spath = os.path.join(wd, "scenarios.jsonl")
    with open(spath, "w") as f:
        for s in scns:
            f.write(json.dumps(s) + "\n")
    tpath = os.path.join(wd, "trace.ndjson")
    stalled = run_harness("ledger", spath, tpath)
    cfg = os.path.join(wd, "LedgerTrace.cfg")
    write_cfg(cfg, "TraceSpec", {}, invariants=["ReportBad"], postcondition="TraceDone")
    txt = open(cfg).read().replace("CONSTANTS\n", "")
    open(cfg, "w").write(txt)
    chunks, nev = split_trace(tpath, wd, 3000)
    bad, consumed = validate_traces("LedgerTrace.tla", cfg, chunks, wd, par=8)
    mine = [b for b in bad if b["prop"] == pid]
    log("TV: %d events, %d divergences for %s (%d other)" % (consumed, len(mine), pid, len(bad) - len(mine)))
    st = dict(restarts=0, crash_images=0, torn_images=0, came_up_on_tip=0, came_up_on_other=0, came_up_empty=0)
    for ln in open(tpath):
        if '"ev":"Restart"' in ln:
            st["restarts"] += 1
        elif '"ev":"Crash"' in ln:
            e = json.loads(ln)
            st["crash_images"] += 1
            if e["torn"] != "complete":
                st["torn_images"] += 1
            tipl = e["st"].get("tip", "")
            if e["st"].get("tiph", 0) == 0:
                st["came_up_empty"] += 1
            elif tipl == e["pretip"]:
                st["came_up_on_tip"] += 1
            else:
                st["came_up_on_other"] += 1
    if not replay and (st["restarts"] == 0 or st["torn_images"] == 0 or st["came_up_on_other"] == 0):
        raise ToolError("C12 scenarios exercised nothing: %r" % st)
    known = load_known()
    violations, known_hits = [], []
    for k, lab in stalled:
        sig = dict(kind="stall", why="restart did not return", res="")
        violations.append((sig, write_replay(pid, dict(property=pid, scenario=scns[k], divergences=[sig], note=lab))))
    by_scn = {}
    for b in mine:
        by_scn.setdefault(b["scn"], []).append(b)
    for k, bs in sorted(by_scn.items()):
        unmatched = []
        for b in bs:
            sig = dict(kind="trace", why=norm_why(b["why"]), res=b["res"].split("|")[0][:60])
            kf = match_known(pid, sig, known)
            if kf:
                known_hits.append(kf)
            else:
                unmatched.append(dict(sig, step=b["i"], full=b["res"]))
        if unmatched:
            violations.append((unmatched[0], write_replay(pid, dict(property=pid, scenario=scns[k], divergences=unmatched, seed=seed(), tier=t))))
    coverage = dict(
        states=max(dist, 1), transitions=max(gen_n, 1), fault_points_total=st["crash_images"] + st["restarts"],
        fault_points_explored=st["crash_images"] + st["restarts"], traces_validated_against_impl=len(scns) - len(stalled),
        evaluations=consumed, distinct_nontrivial=st["torn_images"],
        rule="fault point = (history, prefix of its storage-operation journal, state of the last write: complete / empty / inside the header / exactly the header / "
             "inside the transactions / one byte short); histories are seeded economy scenarios with forks, reorganisations, pruning and rebroadcast; per history "
             "the most recent operations and an even spread of older ones are cut; clean restarts are taken mid-history and at the end",
        exercised=st, action_counts=cov, samples=[scns[0]], exhaustive=False,
        known_findings_matched=len(set(k["id"] for k in known_hits)),
        checker_cmd="tlc MC_Storage.tla; harness/bin/ledger (ops restart / crashscan: ConsensusThread::on_init on the disk image, then one more block); tlc LedgerTrace.tla (C12 checks)",
        trusted_base=["TLC 1.8.0", "in-memory InterfaceIO with a history of writes and removals", "torn write = a prefix of the file (create + write_all, no rename)"],
    )
    write_evidence(pid, t, "fault_enumeration", coverage,
                   ["a write is torn at byte-class boundaries, not at every byte", "the directory listing itself is atomic",
                    "the journal prefixes per history are sampled (recent operations + even spread) when the history is long"],
                   time.time() - t0, len(violations))
    return finish(pid, violations, known_hits)
