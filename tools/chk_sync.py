"""C15: Sync.tla (fork-id / common-ancestor transcription, exchange with out-of-order fetch completions) + two real nodes."""
import json
import os
import random
import time

from chk_ledger import run_harness
from vlib import *

EST_N = {"quick": 70, "thorough": 130}
RANDOM_N = {"quick": 260, "thorough": 5000}


def proto_instances(t):
    out = []
    for p in ([0, 1, 3] if t == "quick" else [0, 1, 2, 3, 5]):
        for la in (0, 2):
            for lb in ((la + 1, la + 3) if t == "quick" else (la + 1, la + 2, la + 4)):
                for batch in ((1, 3) if t == "quick" else (1, 2, 4)):
                    out.append(dict(P=p, LA=la, LB=lb, Batch=batch))
    return out


def run(pid, t, replay=None):
    t0 = time.time()
    wd = workdir(pid)
    rnd = random.Random(seed())
    build_harness()
    dist = gen_n = 0
    if replay:
        scns = [json.load(open(replay))["scenario"]]
        inst = []
    else:
        # the estimate: for all p <= a, b <= N
        cfg = os.path.join(wd, "MC_Sync_est.cfg")
        write_cfg(cfg, "EstSpec", dict(P=1, LA=0, LB=1, Batch=1, RetryOrphans="TRUE", N=EST_N[t]), invariants=["EstimateSafeN"])
        rc, out = tlc("MC_Sync.tla", cfg, wd, workers=2, timeout=1500, heap="4g")
        if not tlc_ok(out):
            raise ToolError("MC_Sync (estimate): " + tlc_error_summary(out))
        # the exchange: safety + convergence under fairness, every instance
        inst = proto_instances(t)
        def one(ic):
            i, c = ic
            cfg = os.path.join(wd, "MC_Sync_%d.cfg" % i)
            write_cfg(cfg, "SFair", dict(c, RetryOrphans="TRUE", N=1), invariants=["STypeOK", "NothingSkipped"], properties=["Converges"])
            rc, out = tlc("MC_Sync.tla", cfg, wd, workers=1, timeout=300, heap="1g")
            if not tlc_ok(out):
                raise ToolError("MC_Sync[%r]: %s" % (c, tlc_error_summary(out)))
            return tlc_stats(out)
        import concurrent.futures
        with concurrent.futures.ThreadPoolExecutor(max_workers=8) as ex:
            for d, g in ex.map(one, list(enumerate(inst))):
                dist += d
                gen_n += g
        # sensitivity: with the pinned orphan rule the model must lose convergence
        cfg = os.path.join(wd, "MC_Sync_pinned.cfg")
        write_cfg(cfg, "SFair", dict(P=2, LA=1, LB=4, Batch=3, RetryOrphans="FALSE", N=1), properties=["Converges"])
        rc, out = tlc("MC_Sync.tla", cfg, wd, workers=2, timeout=300, heap="2g", extra=["-noGenerateSpecTE"])
        if "Temporal property Converges was violated" not in out:
            raise ToolError("MC_Sync lost its sensitivity: storing orphans unconnected no longer breaks convergence in the model")
        log("MC_Sync: estimate safe for all p <= a, b <= %d; %d exchange instances, %d distinct states" % (EST_N[t], len(inst), dist))
        scns = []
        # GEN 1: the estimate on real chains, lengths straddling the checkpoints of the fork id (10, 20, ..., 50, 75)
        marks = [0, 1, 9, 10, 11, 19, 20, 21, 29, 30, 31, 40, 41, 50, 51, 52, 60, 61] + ([74, 75, 76, 85, 100, 101, 110, 126] if t == "thorough" else [74, 76])
        for p in ([0, 1, 10, 33] if t == "quick" else [0, 1, 9, 10, 11, 33, 50, 76]):
            pairs = [(a, b) for a in marks for b in marks if a >= p and b >= p and b > a]
            for a, b in rnd.sample(pairs, min(len(pairs), 14 if t == "quick" else 60)):
                scns.append(dict(p=p, la=a - p, lb=b - p, estimate_only=True))
        # the serving peer reorganised across fork-id checkpoints: it still stores the abandoned branch
        for p, a, b in [(5, 12, 15), (3, 11, 21), (8, 10, 12), (9, 21, 31), (1, 20, 30), (15, 31, 41)] + ([(5, 52, 61), (25, 40, 76)] if t == "thorough" else []):
            scns.append(dict(p=p, la=a - p, lb=b - p, estimate_only=True, b_knows_a=True))
            scns.append(dict(p=p, la=a - p, lb=b - p, b_knows_a=True, mode="random", seed=rnd.randint(0, 10 ** 6), batch=rnd.choice([1, 3, 10])))
        # GEN 2: the exchange; every small (p, la, lb) under three fixed schedules, then seeded random ones
        for c in inst:
            for mode in ("fifo", "lifo", "random"):
                scns.append(dict(p=c["P"], la=c["LA"], lb=c["LB"], batch=c["Batch"], mode=mode, seed=rnd.randint(0, 10 ** 6)))
        for i in range(RANDOM_N[t]):
            la = rnd.choice([0, 0, 1, 2, 3, 5])
            scns.append(dict(p=rnd.choice([0, 1, 2, 3, 5, 8, 12, 21]), la=la, lb=la + rnd.randint(1, 9), seed=rnd.randint(0, 10 ** 9),
                             mode=rnd.choice(["random", "random", "random", "fifo", "lifo"]), batch=rnd.choice([1, 2, 3, 10]),
                             b_knows_a=rnd.random() < 0.2, fails=rnd.choice([0, 0, 1, 2, 4])))
        # beyond the listed property: a lite (spv) client on the same exchange - ghost chain, lite blocks for the blocks that
        # touch its key; divergences are reported as observations in the evidence, a panic is a violation
        for i in range(40 if t == "quick" else 600):
            scns.append(dict(p=0, la=0, lb=rnd.randint(2, 16), seed=rnd.randint(0, 10 ** 9), lite=True,
                             mode=rnd.choice(["random", "random", "fifo", "lifo"]), batch=rnd.choice([1, 2, 10])))
    spath = os.path.join(wd, "scenarios.jsonl")
    with open(spath, "w") as f:
        for s in scns:
            f.write(json.dumps(s) + "\n")
    tpath = os.path.join(wd, "trace.ndjson")
    stalled = run_harness("sync", spath, tpath)
    cfg = os.path.join(wd, "SyncTrace.cfg")
    write_cfg(cfg, "TraceSpec", dict(P=1, LA=0, LB=1, Batch=1, RetryOrphans="TRUE"), invariants=["ReportBad"], postcondition="TraceDone")
    chunks, nev = split_trace(tpath, wd, 2000)
    bad, consumed = validate_traces("SyncTrace.tla", cfg, chunks, wd, par=8)
    log("TV: %d events, %d divergences" % (consumed, len(bad)))
    known = load_known()
    violations, known_hits = [], []
    for k, lab in stalled:
        sig = dict(kind="stall", why="handler did not return", res="")
        violations.append((sig, write_replay(pid, dict(property=pid, scenario=scns[k], divergences=[sig], note=lab))))
    lite_obs = {}
    for b in bad:
        if b["prop"] == "LITE":
            lite_obs[b["why"]] = lite_obs.get(b["why"], 0) + 1
    bad = [b for b in bad if b["prop"] == pid]
    by_scn = {}
    for b in bad:
        by_scn.setdefault(b["scn"], []).append(b)
    for k, bs in sorted(by_scn.items()):
        unmatched = []
        for b in bs:
            sig = dict(kind="trace", why=b["why"], res=b["res"].split("|")[0][:60])
            kf = match_known(pid, sig, known)
            if kf:
                known_hits.append(kf)
            else:
                unmatched.append(dict(sig, full=b["res"]))
        if unmatched:
            violations.append((unmatched[0], write_replay(pid, dict(property=pid, scenario=scns[k], divergences=unmatched, seed=seed(), tier=t))))
    ex = sum(1 for s in scns if not s.get("estimate_only") and not s.get("lite"))
    coverage = dict(
        states=max(dist, 1), transitions=max(gen_n, 1), traces_validated_against_impl=len(scns) - len(stalled), evaluations=consumed,
        distinct_nontrivial=len({json.dumps(s, sort_keys=True) for s in scns if s.get("estimate_only") or s["la"] > 0 or s.get("mode") != "fifo"}),
        rule="scenarios = (p, a, b) length triples straddling the fork-id checkpoints (estimate on real chains, compared with the transcription) + two-node "
             "exchanges for every small (prefix, own blocks, peer blocks, batch) under fifo / lifo / seeded random schedules of messages, fetch completions "
             "and internal queue items; non-trivial = estimate scenario, or exchange with a fork on the syncing side or a non-fifo schedule",
        exchanges=ex, estimate_cases=len(scns) - ex, lite_client_runs=sum(1 for s in scns if s.get("lite")), lite_observations=lite_obs, estimate_bound=EST_N[t], exchange_instances=inst,
        samples=[scns[0], scns[-1]], exhaustive=False,
        checker_cmd="tlc MC_Sync.tla (EstimateSafeN; SFair: STypeOK, NothingSkipped, Converges per instance; pinned orphan rule must violate Converges); harness/bin/sync; tlc SyncTrace.tla",
        trusted_base=["TLC 1.8.0", "harness fullnode.rs + sync.rs (in-memory network, scheduler)", "blocks served from the serving node's block files"],
    )
    write_evidence(pid, t, "model_checking", coverage,
                   ["hashes injective (the two-byte fragments of the fork id can collide in reality with probability 2^-16 per comparison)",
                    "the peer's chain wins the node's fork choice (longer and at least the cumulative burn fee): both branches use the same block spacing",
                    "liveness is proved on the bounded model under weak fairness; on the implementation it is observed as convergence within the step and tick budget"],
                   time.time() - t0, len(violations))
    return finish(pid, violations, known_hits)
