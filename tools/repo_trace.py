"""Converts the add_block records of the repository's own tests (VERIF_REPO_TRACE, written by the cfg(saito_verif)
hook in saito-core) into the event format of ChainTrace.tla: one scenario per blockchain instance, block hashes
numbered in order of appearance, the projected state after each call.

A blockchain instance is followed as long as the monitor can see everything that happens to it: the state before
a call must be the state after the previous recorded call, every stored block must have been delivered through a
recorded call, and the "initial loading finished" flag must not change.  What cannot be followed is counted."""
import json


def limbs(x):
    base = 1 << 21
    return [x >> 42, (x >> 21) % base, x % base]


def convert(path, out_dir, prefix="repo"):
    """returns (groups: {(g, maxh): file}, stats)"""
    chains = {}
    with open(path) as f:
        for ln in f:
            ln = ln.strip()
            if not ln.endswith("}"):
                continue  # a test process that died mid-write
            try:
                e = json.loads(ln)
            except ValueError:
                continue
            chains.setdefault(e["chain"], []).append(e)
    stats = dict(chains=len(chains), events=0, followed_events=0, dropped_chains=0, cut_chains=0, rejected_calls=0, reorgs=0)
    scenarios = []
    for cid, evs in chains.items():
        evs.sort(key=lambda e: e["seq"])
        stats["events"] += len(evs)
        # the address of a blockchain can be reused by a later test: split where the state starts from nothing again
        runs = []
        cur = []
        for e in evs:
            if cur and not e["pre"]["stored"] and e["pre"]["tiph"] == 0 and e["pre"]["top"] == 0:
                runs.append(cur)
                cur = []
            cur.append(e)
        if cur:
            runs.append(cur)
        for run in runs:
            sc = follow(run, stats)
            if sc:
                scenarios.append(sc)
    # group by (window, height bound): the trace spec has both as constants
    groups = {}
    for sc in scenarios:
        maxh = 16
        while maxh < sc["maxh"] + 1:
            maxh *= 2
        groups.setdefault((sc["g"], maxh), []).append(sc)
    files = {}
    k = 0
    for (g, maxh), scs in sorted(groups.items()):
        p = "%s/%s_g%d_h%d.ndjson" % (out_dir, prefix, g, maxh)
        with open(p, "w") as f:
            for sc in scs:
                f.write(json.dumps({"ev": "Reset", "scn": k, "maxh": maxh, "g": g, "loaded": sc["loaded"]}) + "\n")
                for i, ev in enumerate(sc["events"]):
                    ev["scn"] = k
                    ev["i"] = i
                    ev["st"]["lc"] = ev["st"]["lc"] + [0] * (maxh - len(ev["st"]["lc"]))
                    f.write(json.dumps(ev) + "\n")
                k += 1
        files[(g, maxh)] = p
    stats["scenarios"] = len(scenarios)
    return files, stats


def follow(run, stats):
    first = run[0]
    genesis_pre = None
    if first["pre"]["stored"] or first["pre"]["tiph"] != 0:
        pre = first["pre"]
        # a single block (the genesis block, put there by the test set-up) is taken as delivered just before:
        # it spends nothing and creates exactly the entries the ledger holds
        if len(pre["stored"]) == 1 and pre["tiph"] == pre["stored"][0][1] and pre["stored"][0][3] \
                and pre["stored"][0][2] == "00" * 32 and not any(k.startswith("F") for k in pre["utxo"]):
            genesis_pre = pre
        else:
            stats["dropped_chains"] += 1     # the instance had more than that before the first recorded call
            return None
    ids = {}          # hash -> small integer
    names = {}        # utxo key -> short name
    known = {}        # block int -> (parent int, height)

    def bid(h):
        if h not in ids:
            ids[h] = len(ids) + 1
        return ids[h]

    def uname(k):
        spent = k.startswith("F")
        kk = k[1:] if spent else k
        if kk not in names:
            names[kk] = "u%d" % (len(names) + 1)
        return ("F" if spent else "") + names[kk]

    bad_blocks = set()
    for e in run:
        for s in e["steps"]:
            if s[0] == "W" and s[2] is False:
                bad_blocks.add(s[1])
    g = first["pre"]["g"]
    loaded = first["loaded"]
    events = []
    prev_post = None
    maxh = 1
    if genesis_pre is not None:
        gb = bid(genesis_pre["stored"][0][0])
        gh = genesis_pre["stored"][0][1]
        known[gb] = (0, gh)
        lc = [0] * gh
        lc[gh - 1] = gb
        events.append(dict(ev="Add", b=gb, res="AddedLc", steps=[["W", gb, True]], wal={},
                           attrs=dict(parent=0, height=gh, gt=False, bf=limbs(0), ok=True, ins=[],
                                      outs=sorted(uname(k) for k in genesis_pre["utxo"])),
                           st=dict(tip=gb, tiph=gh, top=genesis_pre["top"], loaded=loaded, stored=[gb], inlc=[gb], lc=lc,
                                   utxo=sorted(uname(k) for k in genesis_pre["utxo"]))))
        maxh = gh
        prev_post = genesis_pre
    for e in run:
        if prev_post is not None and e["pre"] != prev_post:
            stats["cut_chains"] += 1    # the test touched the chain by other means
            break
        if e["loaded"] != loaded or e["pre"]["g"] != g:
            stats["cut_chains"] += 1
            break
        if e["b"] == "00" * 32:
            stats["cut_chains"] += 1    # block offered before its hash was generated
            break
        b = bid(e["b"])
        parent = 0 if e["prev"] == "00" * 32 else bid(e["prev"])
        if b not in known:
            known[b] = (parent, e["id"])
        post = e["post"]
        if any(bid(x[0]) not in known for x in post["stored"]):
            stats["cut_chains"] += 1
            break
        maxh = max(maxh, e["id"], post["top"], post["tiph"])
        lc = [0] * maxh
        ok_lc = True
        for hh, hx in post["lc"]:
            if hh - 1 < len(lc):
                lc[hh - 1] = bid(hx)
        st = dict(tip=(bid(post["tip"]) if post["tip"] else 0), tiph=post["tiph"], top=post["top"], loaded=loaded,
                  stored=sorted(bid(x[0]) for x in post["stored"]),
                  inlc=sorted(bid(x[0]) for x in post["stored"] if x[3]),
                  lc=lc, utxo=sorted(uname(k) for k in post["utxo"]))
        steps = [[s[0], bid(s[1]) if s[1] else 0] + ([s[2]] if s[0] == "W" else []) for s in e["steps"]]
        attrs = dict(parent=parent, height=e["id"], gt=e["gt"], bf=limbs(e["bf"]), ok=(e["b"] not in bad_blocks),
                     ins=sorted(uname(k) for k in e["ins"]), outs=sorted(uname(k) for k in e["outs"]))
        events.append(dict(ev="Add", b=b, attrs=attrs, res=e["res"], steps=steps, st=st, wal={}))
        if e["res"] in ("Invalid", "Retry", "Exists"):
            stats["rejected_calls"] += 1
        if sum(1 for s in steps if s[0] == "U"):
            stats["reorgs"] += 1
        prev_post = post
    if not events:
        return None
    stats["followed_events"] += len(events)
    return dict(g=g, loaded=loaded, maxh=maxh, events=events)


if __name__ == "__main__":
    import sys
    files, stats = convert(sys.argv[1], sys.argv[2])
    print(files)
    print(stats)
