#!/usr/bin/env python3
"""dbg_bad.py <PID> <Module.tla> : re-validate work/<PID>/chunk_* and summarise all divergences"""
import sys, os, json, glob, collections, re
sys.path.insert(0, os.path.dirname(os.path.abspath(__file__)))
from vlib import *
pid, module = sys.argv[1], sys.argv[2]
wd = os.path.join(WORK, pid)
cfg = glob.glob(os.path.join(wd, "*Trace.cfg"))[0]
chunks = sorted(glob.glob(os.path.join(wd, "chunk_*.ndjson")))
bad, n = validate_traces(module, cfg, chunks, wd, par=8)
scn = [json.loads(l) for l in open(os.path.join(wd, "scenarios.jsonl"))]
c = collections.Counter(); ex = {}
for j in bad:
    st = {}
    if "steps" in scn[j["scn"]] and j.get("i", 0) > 0:
        st = scn[j["scn"]]["steps"][j["i"] - 1]
    w = re.sub(r" in [bxn]\d+", "", j["why"]); w = re.sub(r":t\d+.*", "", w); w = re.sub(r":(atr:)?[gtbn]\d+.*", "", w)
    k = (j["prop"], w, j["res"][:70], str(st.get("tag")), st.get("op"))
    c[k] += 1; ex.setdefault(k, (j["scn"], j.get("i"), j["why"]))
for k, v in sorted(c.items()):
    print(v, k, ex[k])
