"""Shared driver machinery: building the harness, running TLC (model checking, scenario
generation, trace validation), known-findings matching, evidence and replay files."""
import hashlib
import json
import os
import random
import re
import shutil
import subprocess
import sys
import time
from concurrent.futures import ThreadPoolExecutor

ROOT = os.path.dirname(os.path.dirname(os.path.abspath(__file__)))
SPEC = os.path.join(ROOT, "spec")
HARNESS = os.path.join(ROOT, "harness")
WORK = os.path.join(ROOT, "work")
EVID = os.path.join(ROOT, "evidence")
REPLAYS = os.path.join(ROOT, "replays")
KNOWN = os.path.join(ROOT, "known_findings.json")
TLA_CP = "/opt/veriftools/tla/tla2tools.jar:/opt/veriftools/tla/CommunityModules-deps.jar"


class ToolError(Exception):
    pass


def seed():
    try:
        return int(os.environ.get("VERIF_SEED", "1"))
    except ValueError:
        return 1


def tier(argv_tier=None):
    t = argv_tier or os.environ.get("VERIF_TIER") or "quick"
    return "thorough" if t.startswith("t") else "quick"


def workdir(pid):
    d = os.path.join(WORK, pid)
    shutil.rmtree(d, ignore_errors=True)
    os.makedirs(d, exist_ok=True)
    return d


def log(*a):
    print("[check]", *a, file=sys.stderr, flush=True)


_built = False
_md_counter = 0


def build_harness():
    """(Re)build the harness against /repo's current working tree, hooks on."""
    global _built
    if _built:
        return
    env = dict(os.environ)
    env["CARGO_NET_OFFLINE"] = "true"
    lock_src = "/repo/Cargo.lock"
    lock_dst = os.path.join(HARNESS, "Cargo.lock")
    if not os.path.exists(lock_dst):
        shutil.copy(lock_src, lock_dst)
    t0 = time.time()
    p = subprocess.run(["cargo", "build", "--offline", "--bins"], cwd=HARNESS, env=env,
                       stdout=subprocess.PIPE, stderr=subprocess.STDOUT, text=True)
    if p.returncode != 0:
        tail = "\n".join(p.stdout.splitlines()[-40:])
        raise ToolError("harness build failed:\n" + tail)
    log("harness built in %.0fs" % (time.time() - t0))
    _built = True


def hbin(name):
    return os.path.join(HARNESS, "target", "debug", name)


def write_cfg(path, spec, consts, invariants=(), properties=(), postcondition=None,
              constraint=None, view=None, deadlock=False):
    lines = ["SPECIFICATION " + spec, "CONSTANTS"]
    for k, v in consts.items():
        lines.append("  %s = %s" % (k, v))
    for i in invariants:
        lines.append("INVARIANT " + i)
    for p in properties:
        lines.append("PROPERTY " + p)
    if postcondition:
        lines.append("POSTCONDITION " + postcondition)
    if constraint:
        lines.append("CONSTRAINT " + constraint)
    if view:
        lines.append("VIEW " + view)
    lines.append("CHECK_DEADLOCK " + ("TRUE" if deadlock else "FALSE"))
    with open(path, "w") as f:
        f.write("\n".join(lines) + "\n")


def tlc(module, cfg, wd, workers=8, timeout=1800, env_extra=None, java_opts="", extra=(),
        heap=None):
    """Run TLC; returns (returncode, output). Raises ToolError on timeout."""
    global _md_counter
    _md_counter += 1
    md = os.path.join(wd, "md_%s_%d_%d" % (os.path.basename(cfg).replace(".", "_"), os.getpid(), _md_counter))
    env = dict(os.environ)
    if env_extra:
        env.update(env_extra)
    jopts = ["-XX:+UseParallelGC"]
    if heap:
        jopts.append("-Xmx" + heap)
    jopts += java_opts.split()
    cmd = ["java"] + jopts + ["-cp", TLA_CP, "tlc2.TLC", "-workers", str(workers), "-metadir", md,
                              "-cleanup", "-noGenerateSpecTE", "-config", cfg] + list(extra) + [module]
    try:
        p = subprocess.run(cmd, cwd=SPEC, env=env, stdout=subprocess.PIPE, stderr=subprocess.STDOUT,
                           text=True, timeout=timeout)
    except subprocess.TimeoutExpired:
        shutil.rmtree(md, ignore_errors=True)
        raise ToolError("TLC timeout on %s" % cfg)
    shutil.rmtree(md, ignore_errors=True)
    return p.returncode, p.stdout


def tlc_stats(out):
    m = re.search(r"(\d[\d,]*) states generated, (\d[\d,]*) distinct states found", out)
    if not m:
        return 0, 0
    gen = int(m.group(1).replace(",", ""))
    dist = int(m.group(2).replace(",", ""))
    return dist, gen


def tlc_ok(out):
    return "Model checking completed. No error has been found." in out


def tlc_error_summary(out):
    keep = []
    for ln in out.splitlines():
        if ln.startswith("Error:") or "is violated" in ln or "Invariant" in ln and "violated" in ln:
            keep.append(ln)
    return "; ".join(keep[:5]) or "\n".join(out.splitlines()[-15:])


def printed(out, tag):
    """Lines printed by PrintT(<<tag, "json">>) -> list of parsed JSON values."""
    res = []
    pre = '<<"%s", "' % tag
    for ln in out.splitlines():
        if ln.startswith(pre) and ln.endswith('">>'):
            body = ln[len(pre):-3]
            body = body.replace('\\"', '"').replace("\\\\", "\\")
            try:
                res.append(json.loads(body))
            except json.JSONDecodeError:
                raise ToolError("cannot parse TLC output line: " + ln[:200])
    return res


def action_coverage(out):
    """With -coverage 1: map action name -> (distinct?, count) from lines '<Name line ...>: a:b'."""
    cov = {}
    for m in re.finditer(r"^<(\w+) line [^>]*>: (\d+):(\d+)", out, re.M):
        cov[m.group(1)] = cov.get(m.group(1), 0) + int(m.group(3))
    return cov


def split_trace(path, wd, max_events, prefix="chunk"):
    """Split an ndjson trace at Reset events into chunks of about max_events lines."""
    chunks = []
    cur = []
    n = 0

    def flush():
        nonlocal cur
        if cur:
            p = os.path.join(wd, "%s_%03d.ndjson" % (prefix, len(chunks)))
            with open(p, "w") as f:
                f.writelines(cur)
            chunks.append(p)
            cur = []

    with open(path) as f:
        for ln in f:
            if '"ev":"Reset"' in ln and len(cur) >= max_events:
                flush()
            cur.append(ln)
            n += 1
    flush()
    return chunks, n


def validate_traces(module, cfg, chunks, wd, par=8, timeout=1800):
    """Run the trace spec over every chunk; returns (bad list, events consumed)."""
    def one(ch):
        rc, out = tlc(module, cfg, wd, workers=1, timeout=timeout,
                      env_extra={"TRACE": ch},
                      java_opts="-Xss1g -Dtlc2.tool.queue.IStateQueue=StateDeque", heap="3g")
        m = re.search(r'<<"TRACE-CONSUMED", (\d+), (\d+)>>', out)
        if not m or not tlc_ok(out):
            raise ToolError("trace validation did not complete on %s: %s" % (ch, tlc_error_summary(out)))
        if m.group(1) != m.group(2):
            raise ToolError("trace not fully consumed on %s: %s of %s" % (ch, m.group(1), m.group(2)))
        return printed(out, "BAD"), int(m.group(2)), ch

    bad = []
    consumed = 0
    with ThreadPoolExecutor(max_workers=par) as ex:
        for b, n, ch in ex.map(one, chunks):
            for x in b:
                x["chunk"] = ch
            bad.extend(b)
            consumed += n
    return bad, consumed


def load_known():
    if not os.path.exists(KNOWN):
        return {"findings": [], "fixed": []}
    with open(KNOWN) as f:
        return json.load(f)


def match_known(pid, sig, known):
    """sig: dict of string fields describing a violation. A finding matches when every key of its
    'match' dict equals (or, for values starting with '~', is a regex match of) the signature."""
    for k in known.get("findings", []):
        if k.get("property") != pid:
            continue
        ok = True
        for key, val in k.get("match", {}).items():
            got = str(sig.get(key, ""))
            if isinstance(val, str) and val.startswith("~"):
                if not re.search(val[1:], got):
                    ok = False
                    break
            elif got != str(val):
                ok = False
                break
        if ok:
            return k
    return None


def write_replay(pid, payload):
    d = os.path.join(REPLAYS, pid)
    os.makedirs(d, exist_ok=True)
    body = json.dumps(payload, sort_keys=True, indent=1)
    dig = hashlib.sha1(body.encode()).hexdigest()[:12]
    p = os.path.join(d, dig + ".json")
    with open(p, "w") as f:
        f.write(body)
    return p


def write_evidence(pid, tier_, level, coverage, assumptions, wall, violations):
    if os.environ.get("VERIF_REPLAY_RUN"):
        return
    os.makedirs(EVID, exist_ok=True)
    ev = {"property_id": pid, "tier": tier_, "seed": seed(), "level": level, "coverage": coverage,
          "assumptions": assumptions, "wall_s": round(wall, 1), "violations": violations}
    with open(os.path.join(EVID, pid + ".json"), "w") as f:
        json.dump(ev, f, indent=1, sort_keys=True)
        f.write("\n")


def finish(pid, violations, known_hits):
    """violations: list of (signature dict, replay path). Prints the protocol lines, returns exit code."""
    seen = set()
    for k in known_hits:
        key = k["id"]
        if key in seen:
            continue
        seen.add(key)
        print("KNOWN-FINDING: property=%s %s" % (pid, k["what"]))
    if violations:
        shown = set()
        for sig, path in violations:
            if path in shown:
                continue
            shown.add(path)
            print("VIOLATION property=%s replay=%s" % (pid, path))
            if len(shown) >= 10:
                break
        return 1
    print("OK property=%s" % pid)
    return 0


def sample(items, n, rnd):
    if len(items) <= n:
        return list(items)
    return rnd.sample(items, n)
