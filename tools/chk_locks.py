"""C20: Locks.tla over the lock programs extracted from MIR (tools/lockprog.py)."""
import glob
import json
import os
import re
import subprocess
import time

from vlib import *

TOOLS = os.path.dirname(os.path.abspath(__file__))

RANK = {"configs": 3, "blockchain": 4, "mempool": 5, "peers": 6, "wallet": 7}
CRATES = [("saito-core", "--lib", None), ("saito-rust", "--lib", None), ("saito-rust", "--bin", "saito-rust"),
          ("saito-spammer", "--lib", None), ("saito-spammer", "--bin", "saito-spammer"), ("saito-wasm", "--lib", None)]


def textual_sites(crate):
    """occurrences of .read().await / .write().await / .lock().await in the non-test source of a crate"""
    n = 0
    for p in glob.glob("/repo/%s/src/**/*.rs" % crate, recursive=True):
        if "/util/test/" in p or "/src/test/" in p:
            continue
        s = open(p).read()
        i = s.find("#[cfg(test)]")
        if i >= 0:
            s = s[:i]
        s = "\n".join(l for l in s.split("\n") if not l.strip().startswith("//"))
        n += len(re.findall(r"\.(?:read|write|lock)\(\)\s*\.await", s))
    return n


def extract(wd_tlc):
    # compiler output and MIR dumps are kept between runs (cargo decides what has to be recompiled)
    wd = os.path.join(WORK, "_c20cache")
    os.makedirs(wd, exist_ok=True)
    target = os.path.join(wd, "target")
    out = {}
    env = dict(os.environ, CARGO_TARGET_DIR=target, CARGO_NET_OFFLINE="true", CARGO_INCREMENTAL="0")   # incremental reuse would skip the dump
    fresh_dirs = set()
    for crate, kind, name in CRATES:
        mir = os.path.join(wd, "mir_" + crate)
        new = os.path.join(wd, "mirnew_%s_%s" % (crate, kind.strip("-")))
        subprocess.run(["rm", "-rf", new])
        os.makedirs(new, exist_ok=True)
        cmd = ["cargo", "+nightly", "rustc", "--offline", "-p", crate, kind] + ([name] if name else []) + \
              ["--", "-Zdump-mir=built", "-Zdump-mir-dir=" + new]

        def build():
            p = subprocess.run(cmd, cwd="/repo", env=env, stdout=subprocess.PIPE, stderr=subprocess.STDOUT, text=True, timeout=1500)
            if p.returncode != 0:
                raise ToolError("MIR dump of %s failed: %s" % (crate, p.stdout[-1500:]))
        build()
        marker = os.path.join(wd, "have_%s_%s" % (crate, kind.strip("-")))
        if not os.listdir(new) and not os.path.exists(marker):
            # cargo found the crate up to date but there is no dump of it yet: make it recompile
            for f in glob.glob(os.path.join(target, "debug", ".fingerprint", "%s-*" % crate)):
                subprocess.run(["rm", "-rf", f])
            build()
        if os.listdir(new):
            # the crate was (re)compiled: this dump replaces the previous one of the same target
            if mir not in fresh_dirs:
                pass
            os.makedirs(mir, exist_ok=True)
            tagdir = os.path.join(mir, kind.strip("-"))
            subprocess.run(["rm", "-rf", tagdir])
            os.rename(new, tagdir)
            open(marker, "w").write("1")
        else:
            subprocess.run(["rm", "-rf", new])
        if not os.path.isdir(os.path.join(mir, kind.strip("-"))):
            raise ToolError("no MIR dump for %s %s" % (crate, kind))
    core = os.path.join(wd, "saito-core.json")
    for crate in ("saito-core", "saito-rust", "saito-spammer", "saito-wasm"):
        dst = os.path.join(wd, crate + ".json")
        cmd = ["python3", os.path.join(TOOLS, "lockprog.py"), os.path.join(wd, "mir_" + crate), dst] + ([core] if crate != "saito-core" else [])
        p = subprocess.run(cmd, stdout=subprocess.PIPE, stderr=subprocess.STDOUT, text=True)
        if p.returncode != 0:
            raise ToolError("lockprog %s: %s" % (crate, p.stdout[-1000:]))
        out[crate] = json.load(open(dst))
    return out


def run(pid, t, replay=None):
    t0 = time.time()
    wd = workdir(pid)
    data = extract(wd)
    # the extractor must have seen every acquisition the source contains
    counts = {}
    for crate, d in data.items():
        txt = textual_sites(crate)
        counts[crate] = dict(extracted=d["acquisition_sites"], textual=txt, functions=d["functions"])
        if d["acquisition_sites"] != txt:
            raise ToolError("%s: %d acquisition sites extracted from MIR but %d in the source text - the extraction is incomplete"
                            % (crate, d["acquisition_sites"], txt))
    log("acquisition sites: " + ", ".join("%s %d" % (c, v["extracted"]) for c, v in counts.items()))
    known = load_known()
    violations, known_hits = [], []
    reentrant = []
    seen = set()
    edges = set()
    for crate in ("saito-core", "saito-rust", "saito-spammer"):
        for f in data[crate]["facts"]:
            h, a = f["held"], f["acquired"]
            edges.add((h, a))
            if h == a:
                reentrant.append((crate, f["fn"], h))
                continue
            if h in RANK and a in RANK and RANK[h] > RANK[a]:
                key = (crate, f["fn"], h, a)
                if key in seen:
                    continue
                seen.add(key)
                sig = dict(kind="lock-order", crate=crate, fn=f["fn"], held=h, acquired=a, via=f["via"])
                kf = match_known(pid, sig, known)
                if kf:
                    known_hits.append(kf)
                else:
                    violations.append((sig, write_replay(pid, dict(property=pid, fact=f, crate=crate, divergences=[sig]))))
    # saito-wasm: every acquisition of a ranked lock happens under the global gate
    w = data["saito-wasm"]
    ungated = {}
    callers = {}
    for f in w["facts"]:
        pass
    # acquisition facts carry the held set only pairwise: recompute from the raw per-site data
    sites = w.get("sites", [])
    # the property exempts saito-wasm from the order provided the out-of-order acquisitions are serialised by the gate
    def inverted(s):
        return s["lock"] in RANK and any(h in RANK and RANK[h] > RANK[s["lock"]] for h in s["held"])
    gate_viol = [s for s in sites if inverted(s) and "saito-gate" not in s["held"] and not s["gated_callers_only"]]
    wasm_info = dict(out_of_order_sites=sum(1 for s in sites if inverted(s)),
                     ungated_single_lock_sites=sum(1 for s in sites if s["lock"] in RANK and "saito-gate" not in s["held"] and not s["gated_callers_only"]))
    for s in gate_viol:
        sig = dict(kind="wasm-gate", crate="saito-wasm", fn=s["fn"], held="", acquired=s["lock"], via="direct")
        kf = match_known(pid, sig, known)
        if kf:
            known_hits.append(kf)
        else:
            violations.append((sig, write_replay(pid, dict(property=pid, site=s, divergences=[sig]))))
    # the model: Ordered + no deadlock over the extracted edges; and sensitivity with one inverted edge added
    ranked = sorted(e for e in edges if e[0] in RANK and e[1] in RANK and e[0] != e[1])
    dist = gen_n = 0

    def tla_edges(es):
        return "{" + ", ".join('<<"%s", "%s">>' % e for e in es) + "}"
    import shutil
    shutil.copy(os.path.join(SPEC, "Locks.tla"), wd)
    mod = os.path.join(wd, "MC_Locks.tla")
    with open(mod, "w") as f:
        f.write("---- MODULE MC_Locks ----\nEXTENDS Locks\nExtracted == %s\nWithInversion == Extracted \\cup {<<\"peers\", \"blockchain\">>}\n====\n"
                % tla_edges(ranked))
    for name, expect_ok in (("Extracted", True), ("WithInversion", False)):
        cfg = os.path.join(wd, "MC_Locks_%s.cfg" % name)
        with open(cfg, "w") as f:
            f.write("SPECIFICATION Spec\nCONSTANTS\n  Tasks = {1, 2, 3}\n  Edges <- %s\nINVARIANT Ordered\nINVARIANT NoDeadlock\nINVARIANT MutualExclusion\nCHECK_DEADLOCK FALSE\n" % name)
        rc, out = tlc(mod, cfg, wd, workers=4, timeout=600, heap="4g")
        if expect_ok:
            d, g = tlc_stats(out)
            dist, gen_n = d, g
            if not tlc_ok(out) and not violations and not known_hits:
                raise ToolError("MC_Locks: " + tlc_error_summary(out))
        elif tlc_ok(out):
            raise ToolError("MC_Locks lost its sensitivity: an inverted edge no longer violates Ordered / NoDeadlock")
    apalache = None
    if t == "thorough":
        # beyond the extracted pairs: for EVERY set of pairs that respects the ranks, three tasks never all wait (Apalache,
        # symbolic over the edge set, bounded length); and some unordered set does deadlock
        def apa(cinit, length):
            out_dir = os.path.join(wd, "apalache_" + cinit)
            p = subprocess.run(["apalache-mc", "check", "--cinit=" + cinit, "--inv=NoDeadlock", "--length=%d" % length, "--out-dir=" + out_dir,
                                os.path.join(SPEC, "LocksApa.tla")], stdout=subprocess.PIPE, stderr=subprocess.STDOUT, text=True, timeout=1500, cwd=wd)
            return p.stdout
        o1 = apa("ConstInit", 9)
        o2 = apa("ConstInitAny", 6)
        if "The outcome is: NoError" not in o1:
            raise ToolError("Apalache on LocksApa (ordered edge sets): " + o1[-800:])
        if "The outcome is: Error" not in o2:
            raise ToolError("Apalache on LocksApa lost its sensitivity (unordered edge sets must deadlock)")
        apalache = "every rank-respecting edge set over the 5 locks, 3 tasks, 9 steps: no deadlock; some unordered set deadlocks within 6 steps"
        log("Apalache: " + apalache)
    log("Locks: %d ranked edges, %d distinct states; %d inversion(s), %d reentrant acquisition(s) noted"
        % (len(ranked), dist, len(violations) + len(known_hits), len(set(reentrant))))
    coverage = dict(
        states=max(dist, 1), transitions=max(gen_n, 1), programs=sum(v["functions"] for v in counts.values()),
        evaluations=sum(len(d["facts"]) for d in data.values()), distinct_nontrivial=len(ranked),
        sites=counts, ranked_edges=["%s->%s" % e for e in ranked],
        reentrant_same_lock=sorted(set("%s:%s:%s" % r for r in reentrant)),
        guards_passed_to_callees={c: d["guards_passed_to_callees"] for c, d in data.items()},
        apalache=apalache,
        wasm_gate=dict(wasm_info, ranked_sites=sum(1 for s in sites if s["lock"] in RANK), out_of_order_and_ungated=len(gate_viol)),
        samples=[data["saito-core"]["edges"][0]] if data["saito-core"]["edges"] else [],
        explanation="for every function and async body of the four crates the compiler's MIR gives the control-flow graph, the guard-typed locals and the "
                    "resolved lock-acquisition calls; a may-be-held dataflow over it, with function summaries over the resolved call graph (across crates), "
                    "yields every (held, acquired) pair; Locks.tla checks them against the documented ranks and, as the stated consequence, that tasks "
                    "executing any of these pairs cannot deadlock (TLC, 3 tasks, every interleaving); the number of acquisition sites found in MIR must equal "
                    "the number of .read()/.write()/.lock() awaits in the non-test source",
        checker_cmd="cargo +nightly rustc -- -Zdump-mir=built (4 crates); tools/lockprog.py; tlc MC_Locks.tla",
        trusted_base=["rustc nightly MIR dump", "tools/lockprog.py (may-be-held dataflow on typed locals; calls through trait objects are not followed)", "TLC 1.8.0"],
    )
    write_evidence(pid, t, "model_checking", coverage,
                   ["a guard moved into a callee is treated as released in the caller (count reported)",
                    "calls through dyn InterfaceIO and other trait objects are not followed: the I/O handlers of saito-rust use channels, not the shared locks",
                    "re-acquiring a lock already held (same rank) is reported in the evidence but is not an order violation",
                    "saito-wasm is checked for its gate instead of the order, as the property states"],
                   time.time() - t0, len(violations))
    return finish(pid, violations, known_hits)
