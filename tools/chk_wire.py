"""C09 / C10: Wire.tla (MC_Wire: layout self-check; WireTrace: reference codec vs real codec, decoder totality)."""
import json
import os
import subprocess
import time

from vlib import *

WINV = ["SlipIs59", "HopIs130", "TxSizeFormula", "TxCounts", "BlockSize", "BlockCount", "MsgOneLonger"]


def run(pid, t, replay=None):
    t0 = time.time()
    wd = workdir(pid)
    build_harness()
    cfg = os.path.join(wd, "MC_Wire.cfg")
    write_cfg(cfg, "Spec", {}, invariants=WINV)
    txt = open(cfg).read().replace("CONSTANTS\n", "")
    open(cfg, "w").write(txt)
    rc, out = tlc("MC_Wire.tla", cfg, wd, workers=4, timeout=600)
    if not tlc_ok(out):
        raise ToolError("MC_Wire: " + tlc_error_summary(out))
    dist, gen_n = tlc_stats(out)
    mode = "codec" if pid == "C09" else "decode"
    count = {"C09": {"quick": 2800, "thorough": 40000}, "C10": {"quick": 4000, "thorough": 150000}}[pid][t]
    sd = seed()
    if replay:
        rp = json.load(open(replay))
        sd, count = rp["seed"], rp["count"]
    tpath = os.path.join(wd, "trace.ndjson")
    p = subprocess.run([hbin("wire"), mode, str(sd), str(count), tpath], stdout=subprocess.PIPE, stderr=subprocess.PIPE, text=True)
    violations, known_hits = [], []
    known = load_known()
    if p.returncode != 0:
        if pid == "C10":
            # the process died while decoding (out of memory / abort): that is a violation, not a tool error
            sig = dict(kind="harness-died", why="decoder brought the process down (rc=%d)" % p.returncode, res="")
            kf = match_known(pid, sig, known)
            if kf:
                known_hits.append(kf)
            else:
                violations.append((sig, write_replay(pid, dict(property=pid, seed=sd, count=count, divergences=[sig]))))
        else:
            raise ToolError("wire harness failed rc=%d: %s" % (p.returncode, p.stderr[-1500:]))
    tcfg = os.path.join(wd, "WireTrace.cfg")
    write_cfg(tcfg, "TraceSpec", {}, invariants=["ReportBad"], postcondition="TraceDone")
    txt = open(tcfg).read().replace("CONSTANTS\n", "")
    open(tcfg, "w").write(txt)
    lines = open(tpath).readlines() if os.path.exists(tpath) else []
    if p.returncode != 0:
        # the process died in the middle of a write: keep the complete events only
        def complete(ln):
            try:
                json.loads(ln)
                return ln.endswith("\n")
            except ValueError:
                return False
        lines = [ln for ln in lines if complete(ln)]
    per = 400 if pid == "C09" else 4000
    chunks = []
    for i in range(0, len(lines), per):
        cp = os.path.join(wd, "chunk_%03d.ndjson" % (i // per))
        open(cp, "w").writelines(lines[i:i + per])
        chunks.append(cp)
    bad, consumed = validate_traces("WireTrace.tla", tcfg, chunks, wd, par=8) if chunks else ([], 0)
    mine = [b for b in bad if b["prop"] == pid]
    log("TV: %d events, %d divergences for %s (%d other)" % (consumed, len(mine), pid, len(bad) - len(mine)))
    seen = set()
    for b in mine:
        sig = dict(kind="trace", why=b["why"], res=b["res"].split("|")[0][:80])
        kf = match_known(pid, sig, known)
        if kf:
            known_hits.append(kf)
            continue
        key = (sig["why"], sig["res"])
        if key in seen:
            continue
        seen.add(key)
        case = json.loads(lines[b["pos"] - 1 + (0 if True else 0)]) if False else None
        violations.append((sig, write_replay(pid, dict(property=pid, seed=sd, count=count, divergences=[sig],
                                                       chunk=b.get("chunk"), pos=b["pos"]))))
    fmts = {}
    kinds = set()
    for ln in lines:
        e = json.loads(ln)
        if e["ev"] == "Codec":
            f = e["fmt"] + (":" + str(e["v"].get("tag")) if e["fmt"] == "msg" else "")
            fmts[f] = fmts.get(f, 0) + 1
        elif e["ev"] == "Decode":
            kinds.add((e["dec"], e["mut"].split(":")[0].split("@")[0], e["len"]))
    sample_lines = [json.loads(x) for x in lines[1:4]]
    for s in sample_lines:
        for k in ("hex", "v", "dec"):
            if k in s and len(json.dumps(s[k])) > 400:
                s[k] = json.dumps(s[k])[:400] + "..."
    if pid == "C09":
        coverage = dict(programs=len([1 for ln in lines if '"ev":"Codec"' in ln]), disagreements_checked=len(mine),
                        samples=sample_lines, formats=fmts, states=dist, transitions=gen_n,
                        evaluations=consumed, distinct_nontrivial=len(fmts),
                        explanation="every generated value is encoded by the real encoder and by the TLA+ reference layout (Enc in Wire.tla, "
                                    "evaluated by TLC on the value's fields); bytes, re-decoded fields, predicted size, re-encoding, hash and "
                                    "signature verdict are compared",
                        checker_cmd="tlc MC_Wire.tla; harness/bin/wire codec; tlc WireTrace.tla",
                        trusted_base=["TLC 1.8.0", "Wire.tla layouts (written from the format documentation, checked by MC_Wire)",
                                      "harness wire.rs field trees (taken from struct fields, not from encoder output)"])
        level = "translation_validation"
    else:
        coverage = dict(evaluations=len([1 for ln in lines if '"ev":"Decode"' in ln]), distinct_nontrivial=len(kinds),
                        rule="inputs = every truncation of valid encodings of every format and message tag, boundary values "
                             "(0,1,2,3,254..257,65535,65536,2^31-1,2^32-1) in every count/length field, single bit flips, random strings; "
                             "distinct = (decoder, mutation kind, input length); every input is non-trivial (malformed or boundary)",
                        samples=sample_lines, states=dist, transitions=gen_n,
                        decoders=sorted({k[0] for k in kinds}),
                        checker_cmd="harness/bin/wire decode (catch_unwind + allocation meter); tlc WireTrace.tla (outcome in {returned}, peak <= 16*len+4096)",
                        trusted_base=["TLC 1.8.0", "harness allocation meter (global allocator wrapper)"])
        level = "exploration"
    write_evidence(pid, t, level, coverage,
                   ["values are structurally valid: output slip index = position, ticket payload 97 bytes (as every honest producer emits)",
                    "the reference layouts were written from the format documentation and the code comments, not derived from encoder output",
                    "C10 explores systematically chosen and random byte strings; it does not prove totality for all strings"],
                   time.time() - t0, len(violations))
    return finish(pid, violations, known_hits)
