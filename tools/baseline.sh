#!/bin/sh
# Runs the repository's stable baseline with the verification guard OFF and checks that every
# test listed as stable in /root/.vp/BASELINE.json passes.  usage: tools/baseline.sh [logdir]
LOG=${1:-/verif/work/baseline}
mkdir -p "$LOG"
cd /repo || exit 2
CARGO_NET_OFFLINE=true cargo nextest run --workspace --no-fail-fast --tool-config-file pb:/w/lib/nextest.toml --profile pb --test-threads 8 --offline > "$LOG/nextest.log" 2>&1
J=/repo/target/nextest/pb/junit.xml
python3 - "$J" <<'PY'
import json,sys,xml.etree.ElementTree as ET
base=json.load(open('/root/.vp/BASELINE.json'))
stable=set(base['stable_pass'])
t=ET.parse(sys.argv[1]).getroot()
res={}
for ts in t.iter('testsuite'):
    for tc in ts.iter('testcase'):
        name=ts.get('name')+'::'+tc.get('name')
        ok=not any(c.tag in('failure','error') for c in tc)
        res[name]=ok
missing=[s for s in stable if s not in res]
failed=[s for s in stable if s in res and not res[s]]
print('stable=%d ran=%d failed=%d missing=%d'%(len(stable),len(res),len(failed),len(missing)))
# tests of this suite share ./data directories and interfere when run in parallel (also on the
# pristine snapshot, see DESIGN.md): a stable test that failed in the parallel run is re-run alone
import subprocess
still=[]
for f in failed:
    crate,name=f.split('::',1)
    ok=False
    for attempt in range(2):
        r=subprocess.run(['cargo','test','-p',crate,'--offline','--',name,'--exact'],cwd='/repo',stdout=subprocess.PIPE,stderr=subprocess.STDOUT,text=True)
        if ' 1 passed' in r.stdout:
            ok=True; break
    print(('RETRIED-OK ' if ok else 'FAILED ')+f)
    if not ok: still.append(f)
for m in missing: print('MISSING',m)
sys.exit(1 if still or missing else 0)
PY
