#!/usr/bin/env python3
"""Lock programs from MIR (C20).

Reads the `-Zdump-mir=built` output of a crate and computes, for every function (async bodies included),
which shared locks may be held at every acquisition of a shared lock and at every call of another function
of the workspace.  A may-be-held dataflow over the control-flow graph tracks guard values through moves;
guards are recognised by their type (tokio RwLockReadGuard / RwLockWriteGuard / MutexGuard), the lock by
the type parameter.  Function summaries (locks a function may acquire, transitively) turn call sites into
acquisition facts too.

Output: a JSON document {functions, acquisitions, facts, edges}; `edges` are (held, acquired) pairs with
one witness each - the input of Locks.tla."""
import glob
import json
import os
import re
import sys

RANK = {"configs": 3, "blockchain": 4, "mempool": 5, "peers": 6, "wallet": 7}
GUARD = re.compile(r"^(?:tokio::sync::)?(?:RwLockReadGuard|RwLockWriteGuard|OwnedRwLockReadGuard|OwnedRwLockWriteGuard|MutexGuard|OwnedMutexGuard|RwLockMappedWriteGuard)<")
ACQ_CALL = re.compile(r"tokio::sync::(RwLock|Mutex)::<(.+?)>::(read|write|lock|blocking_read|blocking_write|blocking_lock|try_read|try_write|try_lock|read_owned|write_owned)\(")


def lock_of(ty):
    if "Blockchain" in ty and "BlockchainSyncState" not in ty:
        return "blockchain"
    if "Mempool" in ty:
        return "mempool"
    if "PeerCollection" in ty:
        return "peers"
    if "Wallet" in ty:
        return "wallet"
    if "Configuration" in ty:
        return "configs"
    if "SaitoWasm" in ty:
        return "saito-gate"
    return "other:" + re.sub(r"\s+", "", ty)[:60]


def guard_lock(ty):
    """lock name and mode if `ty` is a guard type (not a reference to one, not a future of one)"""
    ty = ty.strip()
    if not GUARD.match(ty):
        return None
    mode = "r" if "ReadGuard" in ty else "w"
    inner = ty[ty.index("<") + 1:ty.rindex(">")]
    inner = re.sub(r"^'[_a-z0-9]+,\s*", "", inner)
    return lock_of(inner), mode


class Fn:
    def __init__(self, name, path):
        self.name = name
        self.path = path
        self.key = None          # "Type::method" or "module::function"
        self.types = {}
        self.blocks = {}         # bb -> (statements, terminator line)
        self.succ = {}
        self.entry_held = {}
        self.acq_sites = []      # (lock, mode, held set, line)
        self.call_sites = []     # (callee key, held set, line)
        self.passed = 0


HEADER = re.compile(r"^fn (.+?)\((.*)$")
LOCAL = re.compile(r"^\s*let (?:mut )?(_\d+): (.*);$")
BB = re.compile(r"^\s*(bb\d+)( \(cleanup\))?: \{$")
SCOPE_LOCAL = re.compile(r"^\s*debug ")


def norm_callee(s):
    """`<T as Trait<..>>::m` -> T::m ; strip generic arguments; keep the last two path segments"""
    s = s.strip()
    m = re.match(r"^<(.+?) as (.+)>::([A-Za-z0-9_]+)", s)
    if m:
        t = re.sub(r"<.*", "", m.group(1)).split("::")[-1].replace("&mut ", "").replace("&", "").strip()
        return t + "::" + m.group(3)
    s = re.sub(r"::<[^()]*?>(?=::|$)", "", s)
    s = re.sub(r"<[^()]*>", "", s)
    parts = [p for p in s.split("::") if p]
    return "::".join(parts[-2:])


def parse(path):
    text = open(path, errors="replace").read().split("\n")
    fn = None
    cur = None
    cleanup = False
    for ln in text:
        if fn is None:
            m = HEADER.match(ln)
            if m:
                fn = Fn(m.group(1), path)
                hdr = ln
                body = re.search(r"\{async (?:fn|block|closure) body of ([^}]+?)\(\)\}", hdr)
                if body:
                    fn.key = body.group(1).strip()
                    fn.is_body = True
                else:
                    fn.is_body = False
                    first = re.search(r"\(_1: &(?:'[a-z_0-9]+ )?(?:mut )?([A-Za-z0-9_:]+)", hdr)
                    name = re.sub(r"::\{closure#\d+\}", "", fn.name)
                    last = name.split("::")[-1]
                    if "<impl at" in fn.name and first:
                        fn.key = first.group(1).split("::")[-1] + "::" + last
                    else:
                        segs = [p for p in re.sub(r"<impl at [^>]*>", "", name).split("::") if p]
                        fn.key = "::".join(segs[-2:])
                # guard-typed arguments
                for am in re.finditer(r"(_\d+): ([^,)]+(?:<[^)]*>)?)", hdr):
                    fn.types[am.group(1)] = am.group(2)
            continue
        m = LOCAL.match(ln)
        if m and cur is None:
            fn.types[m.group(1)] = m.group(2)
            continue
        m = BB.match(ln)
        if m:
            cur = m.group(1)
            cleanup = bool(m.group(2))
            fn.blocks[cur] = []
            fn.succ[cur] = []
            if cleanup:
                fn.blocks[cur] = None
            continue
        if cur is not None:
            s = ln.strip()
            if s == "}":
                cur = None
                continue
            if fn.blocks[cur] is None:
                continue
            fn.blocks[cur].append(s)
            # successors (normal control flow only)
            if "->" in s:
                tgt = s[s.rindex("->") + 2:].strip().rstrip(";")
                if tgt.startswith("["):
                    for part in tgt.strip("[]").split(","):
                        if ":" not in part:
                            continue
                        lab, bb = part.split(":", 1)
                        lab, bb = lab.strip(), bb.strip()
                        if lab in ("unwind", "drop", "imaginary") or not bb.startswith("bb"):
                            continue
                        fn.succ[cur].append(bb)
                elif tgt.startswith("bb"):
                    fn.succ[cur].append(tgt)
    return fn


ASSIGN_READY = re.compile(r"^(_\d+) = move \(\((_\d+) as Ready\)\.0: (.+)\);$")
ASSIGN_MOVE = re.compile(r"^(_\d+) = move (_\d+);$")
DROP = re.compile(r"^drop\((_\d+)\)")
DEAD = re.compile(r"^StorageDead\((_\d+)\);$")
CALL = re.compile(r"^(_\d+) = (.+?)\((.*)\) -> ")


def analyse(fn):
    guards = {loc: guard_lock(ty) for loc, ty in fn.types.items()}
    guards = {k: v for k, v in guards.items() if v}
    state_in = {bb: None for bb in fn.blocks}
    first = "bb0" if "bb0" in fn.blocks else (sorted(fn.blocks, key=lambda b: int(b[2:]))[0] if fn.blocks else None)
    if first is None:
        return
    # a guard received as argument is held on entry
    entry = frozenset((loc, g[0], g[1]) for loc, g in guards.items() if loc in ("_1", "_2", "_3", "_4", "_5", "_6") and False)
    state_in[first] = entry
    work = [first]
    sites_a, sites_c = {}, {}
    while work:
        bb = work.pop()
        st = set(state_in[bb] or ())
        stmts = fn.blocks.get(bb)
        if stmts is None:
            continue
        for i, s in enumerate(stmts):
            m = ASSIGN_READY.match(s)
            if m and m.group(1) in guards:
                lock, mode = guards[m.group(1)]
                st = {x for x in st if x[0] != m.group(1)}
                st.add((m.group(1), lock, mode))
                continue
            m = ASSIGN_MOVE.match(s)
            if m:
                src = [x for x in st if x[0] == m.group(2)]
                st = {x for x in st if x[0] not in (m.group(1), m.group(2))}
                for x in src:
                    st.add((m.group(1), x[1], x[2]))
                continue
            m = DROP.match(s)
            if m:
                st = {x for x in st if x[0] != m.group(1)}
                continue
            m = DEAD.match(s)
            if m:
                st = {x for x in st if x[0] != m.group(1)}
                continue
            m = CALL.match(s)
            if m:
                dst, callee, args = m.group(1), m.group(2), m.group(3)
                held = frozenset((x[1], x[2]) for x in st)
                am = ACQ_CALL.search(callee + "(")
                if am:
                    lock = lock_of(am.group(2))
                    mode = "r" if "read" in am.group(3) else "w"
                    sites_a[(bb, i)] = (lock, mode, held, s[:160])
                    if am.group(3).startswith(("blocking", "try")) and dst in guards:
                        st.add((dst, lock, mode))
                else:
                    sites_c[(bb, i)] = (norm_callee(callee), held, s[:160])
                    # a guard moved into a callee is no longer ours
                    for a in re.findall(r"move (_\d+)", args):
                        if any(x[0] == a for x in st):
                            fn.passed += 1
                            st = {x for x in st if x[0] != a}
                    if dst in guards and not am:
                        lock, mode = guards[dst]
                        st.add((dst, lock, mode))
        out = frozenset(st)
        for nb in fn.succ.get(bb, []):
            if nb not in state_in:
                continue
            old = state_in[nb]
            new = out if old is None else old | out
            if new != old:
                state_in[nb] = new
                work.append(nb)
    fn.acq_sites = list(sites_a.values())
    fn.call_sites = list(sites_c.values())


def main():
    mirdir, outpath = sys.argv[1], sys.argv[2]
    fns = []
    for p in sorted(glob.glob(os.path.join(mirdir, "**", "*.built.after.mir"), recursive=True)):
        if "{constant#" in p or "-{constructor#" in p:
            continue
        f = parse(p)
        if f is None or not f.blocks:
            continue
        analyse(f)
        fns.append(f)
    # definitions by key; an async fn `T::m` is its body
    by_key = {}
    for f in fns:
        by_key.setdefault(f.key, []).append(f)
    direct = {}
    for f in fns:
        direct.setdefault(f.key, set()).update((l, m) for (l, m, _, _) in f.acq_sites)
    calls = {}
    for f in fns:
        calls.setdefault(f.key, set()).update(c for (c, _, _) in f.call_sites if c in by_key)
    # summaries of other crates of the workspace (saito-core seen from saito-rust / saito-wasm / saito-spammer)
    ext = {}
    for extra in sys.argv[3:]:
        for k, v in json.load(open(extra)).get("may_acquire", {}).items():
            ext.setdefault(k, set()).update(tuple(x.split(":")) for x in v)
    for f in fns:
        calls.setdefault(f.key, set()).update(c for (c, _, _) in f.call_sites if c in ext and c not in by_key)
    # transitive closure of "may acquire"
    acq = {k: set(v) for k, v in direct.items()}
    for k, v in ext.items():
        if k not in by_key:
            acq.setdefault(k, set()).update(v)
    changed = True
    while changed:
        changed = False
        for k, cs in calls.items():
            for c in cs:
                add = acq.get(c, set()) - acq.setdefault(k, set())
                if add:
                    acq[k] |= add
                    changed = True
    facts = []
    n_sites = 0
    for f in fns:
        for (lock, mode, held, src) in f.acq_sites:
            n_sites += 1
            for (h, hm) in held:
                facts.append(dict(fn=f.key, held=h, held_mode=hm, acquired=lock, mode=mode, via="direct", src=src))
        for (callee, held, src) in f.call_sites:
            if callee not in acq or not held:
                continue
            for (lock, mode) in acq[callee]:
                for (h, hm) in held:
                    facts.append(dict(fn=f.key, held=h, held_mode=hm, acquired=lock, mode=mode, via=callee, src=src))
    # per acquisition site: what is held, and whether the function only ever runs under the wasm gate
    callsites = {}
    for f in fns:
        for (callee, held, src) in f.call_sites:
            if callee in by_key:
                callsites.setdefault(callee, []).append((f.key, {h for (h, _) in held}))
    gated = set()
    changed = True
    while changed:
        changed = False
        for k, cs in callsites.items():
            if k in gated:
                continue
            if cs and all(("saito-gate" in held) or (caller in gated) for caller, held in cs):
                gated.add(k)
                changed = True
    sites = []
    for f in fns:
        for (lock, mode, held, src) in f.acq_sites:
            sites.append(dict(fn=f.key, lock=lock, mode=mode, held=sorted({h for (h, _) in held}), src=src,
                              gated_callers_only=f.key in gated))
    edges = {}
    for x in facts:
        edges.setdefault((x["held"], x["acquired"]), x)
    out = dict(
        functions=len(fns), acquisition_sites=n_sites,
        acquisitions_by_lock={k: sum(1 for f in fns for a in f.acq_sites if a[0] == k) for k in sorted({a[0] for f in fns for a in f.acq_sites})},
        guards_passed_to_callees=sum(f.passed for f in fns),
        may_acquire={k: sorted("%s:%s" % x for x in v) for k, v in acq.items() if v},
        facts=facts, sites=sites,
        edges=[dict(held=h, acquired=a, witness=w["fn"], via=w["via"], src=w["src"]) for (h, a), w in sorted(edges.items())],
    )
    json.dump(out, open(outpath, "w"), indent=1)
    print("functions=%d acquisition_sites=%d facts=%d edges=%d" % (len(fns), n_sites, len(facts), len(edges)))


if __name__ == "__main__":
    main()
