"""C03 / C04 / C05: Chain.tla  (MC + GEN + TV)."""
import json
import os
import random
import re
import subprocess
import time

from vlib import *

# bounded instances --------------------------------------------------------------------------
MC = {
    "quick": dict(MaxH=5, G=100, N=4, MaxInvalid=1, MaxLen=5, Tickets="FALSE", Weights="{1, 2}", Loaded="{FALSE, TRUE}"),
    "thorough": dict(MaxH=6, G=100, N=5, MaxInvalid=1, MaxLen=5, Tickets="FALSE", Weights="{1, 2}", Loaded="{FALSE, TRUE}"),
}
MC_SHORT = {
    "quick": dict(MaxH=5, G=1, N=4, MaxInvalid=1, MaxLen=5, Tickets="FALSE", Weights="{1, 2}", Loaded="{FALSE, TRUE}"),
    "thorough": dict(MaxH=5, G=1, N=5, MaxInvalid=1, MaxLen=5, Tickets="FALSE", Weights="{1, 2}", Loaded="{FALSE, TRUE}"),
}
GEN = {
    "quick": [dict(MaxH=5, G=100, N=4, MaxInvalid=1, MaxLen=5, Tickets="FALSE", Weights="{1, 2}", Loaded="{FALSE, TRUE}")],
    "thorough": [dict(MaxH=5, G=100, N=4, MaxInvalid=1, MaxLen=5, Tickets="FALSE", Weights="{1, 2}", Loaded="{FALSE, TRUE}"),
                 dict(MaxH=6, G=100, N=5, MaxInvalid=1, MaxLen=5, Tickets="FALSE", Weights="{1, 2}", Loaded="{FALSE}")],
}
SAMPLE = {"quick": 4000, "thorough": 60000}
# main chain 1..M with tickets from MainFrom on; side chain of K blocks after block F, every ticket placement
GT = {"quick": [dict(MaxH=9, G=100, M=7, K=6, F=2, MaxLen=13, MainFrom=2),
                dict(MaxH=9, G=100, M=6, K=3, F=5, MaxLen=9, MainFrom=5),
                dict(MaxH=9, G=100, M=6, K=4, F=4, MaxLen=10, MainFrom=4)],
      "thorough": [dict(MaxH=10, G=100, M=8, K=7, F=2, MaxLen=15, MainFrom=2),
                   dict(MaxH=9, G=100, M=6, K=3, F=5, MaxLen=9, MainFrom=5),
                   dict(MaxH=9, G=100, M=6, K=4, F=4, MaxLen=10, MainFrom=4),
                   dict(MaxH=10, G=100, M=7, K=4, F=6, MaxLen=11, MainFrom=5),
                   dict(MaxH=10, G=100, M=7, K=5, F=5, MaxLen=12, MainFrom=4),
                   dict(MaxH=10, G=100, M=8, K=4, F=7, MaxLen=12, MainFrom=6)]}
GT_SAMPLE = {"quick": 500, "thorough": 8000}
# (P, LA, LB): common prefix, valid branch, branch with at most one invalid block
FORK = {"quick": [(1, 2, 4), (2, 1, 3), (3, 0, 4), (4, 0, 3)],
        "thorough": [(1, 0, 4), (1, 1, 3), (1, 2, 4), (2, 1, 3), (2, 2, 4), (1, 3, 5), (2, 3, 5), (3, 2, 4),
                     (3, 0, 4), (4, 0, 4), (4, 0, 5), (5, 1, 4)]}
FORK_SAMPLE = {"quick": 1500, "thorough": 40000}
MAXH_TRACE = 16


def mc(wd, t):
    cfg = os.path.join(wd, "MC_Chain.cfg")
    write_cfg(cfg, "MCSpec", MC[t],
              invariants=["QuiescentConsistent", "MicroEqualsBig", "StepsBounded", "RejectedLeavesNoTrace", "NoPanic"],
              properties=["TipNeverLower", "OrphanInert", "Terminates"])
    rc, out = tlc("MC_Chain.tla", cfg, wd, workers=12, timeout=3000, extra=["-coverage", "1"], heap="12g")
    if not tlc_ok(out):
        raise ToolError("MC_Chain: " + tlc_error_summary(out))
    dist, gen = tlc_stats(out)
    cov = action_coverage(out)
    for a in ("MCUnwind", "MCWind", "MCUnNew", "MCRewind", "Deliver"):
        if cov.get(a, 0) == 0:
            raise ToolError("MC_Chain: action %s never taken (vacuous model)" % a)
    # short retention window (purge at 2G, ring of 2G slots): the model follows the code, including the two
    # deviations recorded as known findings - those two invariants MUST be violated, everything else holds
    cfg = os.path.join(wd, "MC_Chain_short.cfg")
    write_cfg(cfg, "MCSpec", MC_SHORT[t],
              invariants=["QuiescentConsistent", "MicroEqualsBig", "StepsBounded"],
              properties=["TipNeverLower", "OrphanInert", "Terminates"])
    rc, out = tlc("MC_Chain.tla", cfg, wd, workers=12, timeout=3000, extra=["-coverage", "1"], heap="12g")
    if not tlc_ok(out):
        raise ToolError("MC_Chain (short window): " + tlc_error_summary(out))
    d2, g2 = tlc_stats(out)
    cov2 = action_coverage(out)
    if cov2.get("MCCrash", 0) == 0:
        raise ToolError("MC_Chain (short window): the crash step was never taken")
    cov["MCCrash"] = cov2.get("MCCrash", 0)
    for inv in ("RejectedLeavesNoTraceRooted", "NoPanic"):
        cfg = os.path.join(wd, "MC_Chain_short_%s.cfg" % inv)
        write_cfg(cfg, "MCSpec", MC_SHORT[t], invariants=[inv])
        rc, out = tlc("MC_Chain.tla", cfg, wd, workers=12, timeout=3000, heap="12g")
        if ("Invariant %s is violated" % inv) not in out:
            raise ToolError("MC_Chain (short window): %s is not violated - the model no longer reproduces the known "
                            "findings C04-failed-reorg-purges-ahead / C04-panic-rewinding-a-purged-block" % inv)
    log("MC_Chain short window: %d distinct states; RejectedLeavesNoTraceRooted and NoPanic violated as recorded" % d2)
    return dist + d2, gen + g2, cov


def mc_gt(wd, t, rnd):
    """ticket-density instance: model checking + scenario generation in one TLC run"""
    dist = gen_n = 0
    scns = []
    for i, consts in enumerate(GT[t]):
        cfg = os.path.join(wd, "MC_ChainGT_%d.cfg" % i)
        write_cfg(cfg, "MCSpec", consts,
                  invariants=["QuiescentConsistent", "MicroEqualsBig", "StepsBounded", "DensityOnChain",
                              "PrintScenario"],
                  properties=["TipNeverLower"])
        rc, out = tlc("MC_ChainGT.tla", cfg, wd, workers=12, timeout=3000, heap="12g")
        if not tlc_ok(out):
            raise ToolError("MC_ChainGT: " + tlc_error_summary(out))
        d, g = tlc_stats(out)
        dist += d
        gen_n += g
        s = printed(out, "SCN")
        # the dense instance is sampled; the straddling instances are small and kept whole
        scns += sample(s, GT_SAMPLE[t], rnd) if i == 0 else sample(s, GT_SAMPLE[t] // 2, rnd)
        log("MC_ChainGT instance %d: %d distinct states, %d behaviours" % (i, d, len(s)))
    return dist, gen_n, scns


def mc_fork(wd, t, rnd):
    """two-branch family: MC + scenario generation"""
    dist = gen_n = 0
    scns = []
    for (P, LA, LB) in FORK[t]:
        cfg = os.path.join(wd, "MC_ChainFork_%d_%d_%d.cfg" % (P, LA, LB))
        write_cfg(cfg, "MCSpec", dict(MaxH=P + max(LA, LB) + 2, G=100, P=P, LA=LA, LB=LB, MaxLen=P + LA + LB),
                  invariants=["QuiescentConsistent", "MicroEqualsBig", "StepsBounded", "PrintScenario"],
                  properties=["TipNeverLower", "Terminates"])
        rc, out = tlc("MC_ChainFork.tla", cfg, wd, workers=8, timeout=3000, heap="8g")
        if not tlc_ok(out):
            raise ToolError("MC_ChainFork(%d,%d,%d): %s" % (P, LA, LB, tlc_error_summary(out)))
        d, g = tlc_stats(out)
        dist += d
        gen_n += g
        scns += printed(out, "SCN")
    log("MC_ChainFork: %d instances, %d distinct states, %d behaviours" % (len(FORK[t]), dist, len(scns)))
    return dist, gen_n, sample(scns, FORK_SAMPLE[t], rnd)


REPO = os.environ.get("VERIF_REPO", "/repo")


def repo_tree_key():
    """identifies the exact working tree of the repository (HEAD + uncommitted changes + untracked sources)"""
    import hashlib
    h = hashlib.sha1()
    for cmd in (["git", "-C", REPO, "rev-parse", "HEAD"], ["git", "-C", REPO, "diff", "HEAD"],
                ["git", "-C", REPO, "status", "--porcelain"]):
        h.update(subprocess.run(cmd, stdout=subprocess.PIPE).stdout)
    out = subprocess.run(["git", "-C", REPO, "ls-files", "--others", "--exclude-standard"], stdout=subprocess.PIPE, text=True).stdout
    for f in out.splitlines():
        try:
            h.update(open(os.path.join(REPO, f), "rb").read())
        except OSError:
            pass
    return h.hexdigest()[:16]


def record_repo_tests(wd):
    """runs the repository's own saito-core unit tests with the cfg(saito_verif) recorder on; every add_block call
    they make (TestManager, the consensus thread's block queue) is written with the chain state before and after.
    The recording is cached per working-tree state (the three chain checks share it)."""
    import fcntl
    cache = os.path.join(WORK, "_rtcache")
    os.makedirs(cache, exist_ok=True)
    key = repo_tree_key()
    tr = os.path.join(cache, "trace_%s.ndjson" % key)
    # one recording at a time (the chain checks may be started side by side)
    lock = open(os.path.join(cache, "lock"), "w")
    fcntl.flock(lock, fcntl.LOCK_EX)
    if os.path.exists(tr) and os.path.getsize(tr) > 0:
        return tr, "cached"
    for f in os.listdir(cache):
        if f.startswith("trace_"):
            os.remove(os.path.join(cache, f))
    env = dict(os.environ)
    env.update(CARGO_NET_OFFLINE="true", CARGO_TARGET_DIR=os.path.join(cache, "target"),
               RUSTFLAGS="--cfg saito_verif --cfg tokio_unstable --check-cfg cfg(saito_verif) --check-cfg cfg(tokio_unstable)",
               VERIF_REPO_TRACE=tr + ".part", RUST_BACKTRACE="0")
    if os.path.exists(tr + ".part"):
        os.remove(tr + ".part")
    t0 = time.time()
    p = subprocess.run(["cargo", "test", "-p", "saito-core", "--lib", "--offline", "--", "--test-threads", "8"], cwd=REPO, env=env,
                       stdout=subprocess.PIPE, stderr=subprocess.STDOUT, text=True, timeout=2400)
    m = re.search(r"test result: \w+\. (\d+) passed; (\d+) failed", p.stdout)
    if not m:
        raise ToolError("the repository's tests did not run with the recorder on:\n" + "\n".join(p.stdout.splitlines()[-25:]))
    if not os.path.exists(tr + ".part"):
        raise ToolError("the repository's tests recorded nothing (hook missing?)")
    os.rename(tr + ".part", tr)
    return tr, "%s passed, %s failed, %.0f s" % (m.group(1), m.group(2), time.time() - t0)


def repo_tests_leg(pid, t, wd, rscn, known, violations, known_hits):
    """the repository's own tests as a source of traces: their add_block calls are validated against ChainTrace"""
    import repo_trace
    rwd = os.path.join(wd, "repo")
    os.makedirs(rwd, exist_ok=True)
    if rscn is not None:
        # replay of a stored scenario: validate its events again (the test run itself cannot be replayed)
        p = os.path.join(rwd, "replay.ndjson")
        with open(p, "w") as f:
            f.write(json.dumps({"ev": "Reset", "scn": 0, "maxh": rscn["maxh"], "g": rscn["g"], "loaded": rscn["loaded"]}) + "\n")
            for ev in rscn["repo_trace_events"]:
                f.write(json.dumps(ev) + "\n")
        files = {(rscn["g"], rscn["maxh"]): p}
        stats = dict(events=len(rscn["repo_trace_events"]), followed_events=len(rscn["repo_trace_events"]), scenarios=1)
        how = "replay"
    else:
        tr, how = record_repo_tests(wd)
        files, stats = repo_trace.convert(tr, rwd)
        if stats["events"] == 0:
            raise ToolError("the repository tests recorded no add_block call")
    bad = []
    consumed = 0
    by_file = {}
    for (gval, maxh), p in sorted(files.items()):
        cfg = os.path.join(rwd, "ChainTrace_repo_g%d_h%d.cfg" % (gval, maxh))
        write_cfg(cfg, "TraceSpec", dict(MaxH=maxh, G=gval), invariants=["ReportBad"], postcondition="TraceDone")
        by_file[p] = (gval, maxh)
    def one(p):
        gval, maxh = by_file[p]
        cfg = os.path.join(rwd, "ChainTrace_repo_g%d_h%d.cfg" % (gval, maxh))
        return validate_traces("ChainTrace.tla", cfg, [p], wd, par=1)
    from concurrent.futures import ThreadPoolExecutor
    with ThreadPoolExecutor(max_workers=6) as ex:
        for (b2, c2), p in zip(ex.map(one, list(by_file.keys())), list(by_file.keys())):
            for x in b2:
                x["file"] = p
            bad += b2
            consumed += c2
    mine = [b for b in bad if b["prop"] == pid]
    log("repository tests (%s): %d of %d add_block calls followed in %d scenarios, %d divergences for %s (%d all properties)"
        % (how, stats["followed_events"], stats["events"], stats["scenarios"], len(mine), pid, len(bad)))
    groups = {}
    for b in mine:
        groups.setdefault((b["file"], b["scn"]), []).append(b)
    for (p, k), bs in sorted(groups.items()):
        unmatched = []
        for b in bs:
            sig = dict(kind="trace", why=b["why"], res=b["res"], cls="repo-tests")
            kf = match_known(pid, sig, known)
            if kf:
                known_hits.append(kf)
            else:
                unmatched.append(dict(sig, step=b["i"], b=b["b"]))
        if unmatched:
            evs = [json.loads(ln) for ln in open(p) if json.loads(ln).get("scn") == k and json.loads(ln).get("ev") == "Add"]
            gval, maxh = by_file[p]
            loaded = evs[0]["st"]["loaded"] if evs else False
            path = write_replay(pid, dict(property=pid, scenario=dict(repo_trace_events=evs, g=gval, maxh=maxh, loaded=loaded),
                                          divergences=unmatched, seed=seed(), tier=t))
            violations.append((unmatched[0], path))
    if t == "thorough" and rscn is None and files:
        # the binding is live: a recorded tip changed by hand must be rejected
        p0 = sorted(files.values())[0]
        lines = open(p0).read().splitlines()
        for i, ln in enumerate(lines):
            e = json.loads(ln)
            if e.get("ev") == "Add" and e["st"]["tip"] == e["b"] and e["b"] > 1:
                e["st"]["tip"] = e["b"] - 1
                lines[i] = json.dumps(e)
                break
        pc = os.path.join(rwd, "corrupted.ndjson")
        open(pc, "w").write("\n".join(lines) + "\n")
        gval, maxh = by_file[p0]
        cfg = os.path.join(rwd, "ChainTrace_repo_g%d_h%d.cfg" % (gval, maxh))
        b3, _ = validate_traces("ChainTrace.tla", cfg, [pc], wd, par=1)
        if not b3:
            raise ToolError("a corrupted recording of the repository's tests was accepted: the trace binding is not live")
    return stats, consumed


def long_chain_leg(pid, t, wd, lscns, known, violations, known_hits):
    """C05 beyond the retention window: economy scenarios with G of 2..3 and chains that wrap the window and the
    block ring several times, run by the ledger harness and judged by LedgerTrace's C05 checks"""
    import chk_ledger
    import gen_ledger
    if lscns is None:
        lscns = gen_ledger.fork_choice_scenarios(seed(), 80 if t == "quick" else 2500)
    spath = os.path.join(wd, "long_scenarios.jsonl")
    with open(spath, "w") as f:
        for s in lscns:
            f.write(json.dumps(s) + "\n")
    tpath = os.path.join(wd, "long_trace.ndjson")
    stalled = chk_ledger.run_harness("ledger", spath, tpath)
    cfg = os.path.join(wd, "LedgerTrace.cfg")
    write_cfg(cfg, "TraceSpec", {}, invariants=["ReportBad"], postcondition="TraceDone")
    txt = open(cfg).read().replace("CONSTANTS\n", "")
    open(cfg, "w").write(txt)
    lwd = os.path.join(wd, "long")
    os.makedirs(lwd, exist_ok=True)
    chunks, nev = split_trace(tpath, lwd, 6000)
    bad, consumed = validate_traces("LedgerTrace.tla", cfg, chunks, wd, par=8)
    aborted = sum(1 for ln in open(tpath) if '"ev":"Abort"' in ln)
    mine = [b for b in bad if b["prop"] == pid]
    log("long-chain leg: %d scenarios, %d events, %d divergences for %s (%d all properties), %d aborted"
        % (len(lscns), consumed, len(mine), pid, len(bad), aborted))
    by_scn = {}
    for b in mine:
        by_scn.setdefault(b["scn"], []).append(b)
    for k, bs in sorted(by_scn.items()):
        unmatched = []
        for b in bs:
            sig = dict(kind="trace", why=chk_ledger.norm_why(b["why"]), res=b["res"], cls="long-chain")
            kf = match_known(pid, sig, known)
            if kf:
                known_hits.append(kf)
            else:
                unmatched.append(dict(sig, step=b["i"], detail=b["why"]))
        if unmatched:
            path = write_replay(pid, dict(property=pid, scenario=lscns[k], divergences=unmatched, seed=seed(), tier=t))
            violations.append((unmatched[0], path))
    if (aborted or stalled) and not violations:
        raise ToolError("long-chain leg: %d scenarios aborted in the runner, %d stalled" % (aborted, len(stalled)))
    return len(lscns), consumed


def deep_scenarios(rnd, n, max_blocks=12, invalid_p=0.35, tickets=False):
    """Seeded random scenarios beyond the TLC bound: 2-3 branches, back-and-forth growth, one invalid
    block at a random position, orphans by delivering out of order, duplicates."""
    out = []
    for _ in range(n):
        nb = rnd.randint(5, max_blocks)
        blocks = [dict(id=1, parent=0, gt=False, w=2, ok=True)]
        tips = [1]
        nbranches = rnd.choice([2, 2, 3])
        for b in range(2, nb + 1):
            if len(tips) < nbranches and rnd.random() < 0.3:
                par = rnd.choice([x["id"] for x in blocks])
                tips.append(b)
            else:
                i = rnd.randrange(len(tips))
                par = tips[i]
                tips[i] = b
            blocks.append(dict(id=b, parent=par, gt=(rnd.random() < (0.45 if tickets else 0.75)),
                               w=rnd.choice([1, 2, 2, 3]), ok=True))
        if rnd.random() < invalid_p:
            x = rnd.choice(blocks[1:])
            x["ok"] = False
            x["bad"] = rnd.choice(["burnfee", "difficulty", "unpaid"])  # always-checked header rules only
        order = [1]
        ids = [b["id"] for b in blocks[1:]]
        mode = rnd.random()
        if mode < 0.5:
            pass  # in id order (parents first)
        elif mode < 0.8:
            # mostly ordered with a few swaps (orphans)
            for _k in range(rnd.randint(1, 3)):
                i = rnd.randrange(len(ids))
                j = rnd.randrange(len(ids))
                ids[i], ids[j] = ids[j], ids[i]
        else:
            rnd.shuffle(ids)
        order += ids
        for _k in range(rnd.randint(0, 2)):
            order.insert(rnd.randrange(1, len(order) + 1), rnd.choice(order))
        scn = dict(blocks=blocks, order=order)
        if rnd.random() < 0.3:
            # a node that has finished loading: blocks with an unknown parent are refused with "fetch the parent";
            # everything is offered once more at the end, parents first
            scn["loaded"] = True
            scn["order"] = order + sorted(set(order))
        out.append(scn)
    return out


def short_window_scenarios(rnd, n):
    """Chains that outgrow a retention window of 1..3 blocks (purge at 2G, block ring of 2G slots wrapping several
    times): a main chain delivered in order, a competing branch forking a few blocks below some point of it,
    valid or with one invalid block, delivered in order / reversed / before the main chain catches up; plus
    random trees."""
    out = []
    for _ in range(n):
        g = rnd.choice([1, 2, 2, 3])
        if rnd.random() < 0.3:
            s = deep_scenarios(rnd, 1, max_blocks=13)[0]
            s["g"] = g
            out.append(s)
            continue
        main_len = rnd.randint(2 * g + 1, min(2 * g + 6, 11))
        if rnd.random() < 0.3:
            # a candidate chain sitting on the tip, part of it delivered before the tip itself (stored, not on
            # the chain), failing at its second or a later block - half of the time placed so that the first
            # candidate block sits in slot 0 of the block ring (id a multiple of 2G)
            if rnd.random() < 0.5:
                fits = [m for m in range(2 * g + 1, 12) if (m + 1) % (2 * g) == 0]
                main_len = rnd.choice(fits)
            blocks = [dict(id=1, parent=0, gt=False, w=2, ok=True)]
            for b in range(2, main_len + 1):
                blocks.append(dict(id=b, parent=b - 1, gt=(rnd.random() < 0.8), w=rnd.choice([2, 2, 3]), ok=True))
            n_side = rnd.randint(2, 4)
            side = list(range(main_len + 1, main_len + n_side + 1))
            for i, b in enumerate(side):
                blocks.append(dict(id=b, parent=b - 1, gt=(rnd.random() < 0.8), w=rnd.choice([2, 3]), ok=True))
            j = rnd.randint(1, n_side - 1)
            if rnd.random() < 0.8:
                blocks[side[j] - 1]["ok"] = False
                blocks[side[j] - 1]["bad"] = rnd.choice(["burnfee", "difficulty", "unpaid"])
            early = rnd.randint(1, j)
            pre = side[:early]
            if rnd.random() < 0.5:
                pre = pre[::-1]
            order = [1] + list(range(2, main_len)) + pre + [main_len] + side[early:]
            out.append(dict(blocks=blocks, order=order, g=g))
            continue
        blocks = [dict(id=1, parent=0, gt=False, w=2, ok=True)]
        for b in range(2, main_len + 1):
            blocks.append(dict(id=b, parent=b - 1, gt=(rnd.random() < 0.8), w=rnd.choice([2, 2, 3]), ok=True))
        fork = rnd.randint(max(1, main_len - 6), main_len)
        side_len = rnd.randint(1, min(7, 15 - main_len))
        side = []
        par = fork
        nid = main_len
        for i in range(side_len):
            nid += 1
            blocks.append(dict(id=nid, parent=par, gt=(rnd.random() < 0.8), w=rnd.choice([1, 2, 3]), ok=True))
            side.append(nid)
            par = nid
        if rnd.random() < 0.6:
            x = blocks[rnd.choice(side) - 1]
            x["ok"] = False
            x["bad"] = rnd.choice(["burnfee", "difficulty", "unpaid"])
        main = list(range(2, main_len + 1))
        mode = rnd.random()
        if mode < 0.3:
            order = [1] + main + side
        elif mode < 0.45 and fork == main_len and len(side) >= 2:
            # the child of the tip arrives before the tip: it stays a stored side block until its own child arrives
            order = [1] + main[:-1] + [side[0], main[-1]] + side[1:]
        elif mode < 0.6:
            order = [1] + main + side[::-1]
        elif mode < 0.8:
            cut = rnd.randint(fork, main_len)
            order = [1] + [b for b in main if b <= cut] + side + [b for b in main if b > cut]
        else:
            rest = main[fork - 1:] + side
            rnd.shuffle(rest)
            order = [1] + main[:fork - 1] + rest
        if rnd.random() < 0.3:
            order.insert(rnd.randrange(1, len(order) + 1), rnd.choice(order))
        scn = dict(blocks=blocks, order=order, g=g)
        if rnd.random() < 0.25:
            scn["loaded"] = True
            scn["order"] = order + sorted(set(order))
        out.append(scn)
    return out


def gen(wd, t, rnd):
    scns = []
    for i, consts in enumerate(GEN[t]):
        cfg = os.path.join(wd, "MC_Chain_gen%d.cfg" % i)
        write_cfg(cfg, "MCSpec", consts, invariants=["PrintScenario"])
        rc, out = tlc("MC_Chain.tla", cfg, wd, workers=12, timeout=3000, heap="12g")
        if not tlc_ok(out):
            raise ToolError("MC_Chain gen: " + tlc_error_summary(out))
        s = printed(out, "SCN")
        log("GEN instance %d: %d behaviours" % (i, len(s)))
        scns.append(s)
    per = SAMPLE[t] // len(scns)
    res = []
    for s in scns:
        res.extend(sample(s, per, rnd))
    return res


def run(pid, t, replay=None):
    t0 = time.time()
    wd = workdir(pid)
    rnd = random.Random(seed())
    build_harness()
    lscns = None
    rscn = None
    if replay:
        with open(replay) as f:
            rp = json.load(f)
        scns = [rp["scenario"]]
        dist = gen_n = 0
        cov = {}
        if "repo_trace_events" in rp["scenario"]:
            rscn = rp["scenario"]
            scns = [dict(blocks=[dict(id=1, parent=0, gt=False, w=2, ok=True)], order=[1])]
        elif "steps" in rp["scenario"]:
            # a scenario of the long-chain leg (ledger harness)
            lscns = scns
            scns = [dict(blocks=[dict(id=1, parent=0, gt=False, w=2, ok=True)], order=[1])]
    else:
        dist, gen_n, cov = mc(wd, t)
        log("MC_Chain: %d distinct states, %d generated" % (dist, gen_n))
        scns = gen(wd, t, rnd)
        scns += deep_scenarios(rnd, 300 if t == "quick" else 6000)
        scns += short_window_scenarios(rnd, 250 if t == "quick" else 5000)
        if pid in ("C03", "C04"):
            d2, g2, s2 = mc_fork(wd, t, rnd)
            dist += d2
            gen_n += g2
            scns += s2
        if pid == "C05":
            d2, g2, s2 = mc_gt(wd, t, rnd)
            dist += d2
            gen_n += g2
            scns += s2
            scns += deep_scenarios(rnd, 300 if t == "quick" else 4000, tickets=True)
    spath = os.path.join(wd, "scenarios.jsonl")
    with open(spath, "w") as f:
        for s in scns:
            f.write(json.dumps(s) + "\n")
    tpath = os.path.join(wd, "trace.ndjson")
    stalled = []
    skip = 0
    parts = []
    while True:
        part = tpath + ".%d" % len(parts)
        p = subprocess.run([hbin("chain"), spath, part, "--maxh", str(MAXH_TRACE), "--skip", str(skip)],
                           stdout=subprocess.PIPE, stderr=subprocess.PIPE, text=True)
        parts.append(part)
        if p.returncode == 0:
            break
        if p.returncode == 3 and os.path.exists(part + ".stall"):
            lab = open(part + ".stall").read()
            # "scn K add B"
            k = int(lab.split()[1])
            stalled.append((k, lab))
            skip = k + 1
            continue
        raise ToolError("chain harness failed rc=%d: %s" % (p.returncode, p.stderr[-2000:]))
    with open(tpath, "w") as out:
        for part in parts:
            with open(part) as f:
                lines = f.readlines()
            # a stalled part ends with an incomplete scenario: drop its events after the last Reset
            if os.path.exists(part + ".stall"):
                last_reset = max(i for i, ln in enumerate(lines) if '"ev":"Reset"' in ln)
                lines = lines[:last_reset]
            out.writelines(lines)
            os.remove(part)
    # the retention window is a constant of the specification: one validation run per window used
    per_g = {}
    cur = None
    with open(tpath) as f:
        for ln in f:
            if '"ev":"Reset"' in ln:
                cur = json.loads(ln)["g"]
            per_g.setdefault(cur, []).append(ln)
    bad = []
    consumed = 0
    nchunks = 0
    for gval, lines in sorted(per_g.items()):
        gpath = os.path.join(wd, "trace_g%d.ndjson" % gval)
        with open(gpath, "w") as f:
            f.writelines(lines)
        cfg = os.path.join(wd, "ChainTrace_g%d.cfg" % gval)
        write_cfg(cfg, "TraceSpec", dict(MaxH=MAXH_TRACE, G=gval), invariants=["ReportBad"],
                  postcondition="TraceDone")
        chunks, nev = split_trace(gpath, wd, 12000, prefix="chunk_g%d" % gval)
        b2, c2 = validate_traces("ChainTrace.tla", cfg, chunks, wd, par=8)
        bad += b2
        consumed += c2
        nchunks += len(chunks)
    log("TV: %d events in %d chunks (windows %s), %d divergences (all properties)"
        % (consumed, nchunks, sorted(per_g.keys()), len(bad)))

    known = load_known()
    mine = [b for b in bad if b["prop"] == pid]
    by_scn = {}
    for b in mine:
        by_scn.setdefault(b["scn"], []).append(b)
    violations = []
    known_hits = []
    long_n = long_ev = 0
    if pid == "C05" and rscn is None:
        long_n, long_ev = long_chain_leg(pid, t, wd, lscns, known, violations, known_hits)
    rstats, rconsumed = ({}, 0)
    if rscn is not None or (not replay):
        rstats, rconsumed = repo_tests_leg(pid, t, wd, rscn, known, violations, known_hits)
    for k, lab in stalled:
        if pid == "C04":
            sig = dict(kind="stall", why="add_block did not return", scenario_class="")
            kf = match_known(pid, sig, known)
            if kf:
                known_hits.append(kf)
            else:
                path = write_replay(pid, dict(property=pid, scenario=scns[k], divergences=[sig], note=lab))
                violations.append((sig, path))
    nontrivial = set()
    for k, bs in sorted(by_scn.items()):
        unmatched = []
        for b in bs:
            sig = dict(kind="trace", why=b["why"], res=b["res"], cls=classify(scns[k], b), g=str(scns[k].get("g", 100)))
            kf = match_known(pid, sig, known)
            if kf:
                known_hits.append(kf)
            else:
                unmatched.append(dict(sig, step=b["i"], b=b["b"]))
        if unmatched:
            path = write_replay(pid, dict(property=pid, scenario=scns[k], divergences=unmatched,
                                          seed=seed(), tier=t))
            violations.append((unmatched[0], path))
    # coverage numbers (measured)
    stats = scenario_stats(scns)
    samples = [scns[0], scns[len(scns) // 2], scns[-1]]
    coverage = dict(
        states=dist, transitions=gen_n,
        traces_validated_against_impl=len(scns) - len(stalled),
        evaluations=consumed, distinct_nontrivial=stats[pid],
        rule=RULES[pid], samples=samples,
        exhaustive=False,
        mc_instance=MC[t], gen_instances=GEN[t],
        action_counts={k: cov.get(k, 0) for k in ("Deliver", "MCUnwind", "MCWind", "MCUnNew", "MCRewind")},
        long_chain_scenarios=long_n, long_chain_events=long_ev,
        repo_test_calls_followed=rstats.get("followed_events", 0), repo_test_calls_recorded=rstats.get("events", 0),
        repo_test_scenarios=rstats.get("scenarios", 0), repo_test_rejected_calls=rstats.get("rejected_calls", 0),
        divergences_this_property=len(mine), known_findings_matched=len(set(k["id"] for k in known_hits)),
        checker_cmd="tlc MC_Chain.tla (MC, GEN); harness/bin/chain; tlc ChainTrace.tla (TV)",
        trusted_base=["TLC 1.8.0", "harness projection (project.rs)", "builder nodes using Block::create"],
    )
    write_evidence(pid, t, "model_checking", coverage, ASSUMPTIONS, time.time() - t0, len(violations))
    return finish(pid, violations, known_hits)


RULES = {
    "C03": "scenarios = TLC behaviours of MC_Chain (every tree/validity/weight/delivery order within the "
           "bound, sampled by seed in the quick tier) + seeded random deep scenarios; non-trivial = distinct "
           "scenario containing at least one reorganisation (a block on a non-first branch delivered) ",
    "C04": "same scenarios; non-trivial = distinct scenario that contains an invalid block which is delivered "
           "after its parent (so that some add_block call is rejected after winding)",
    "C05": "same scenarios + ticket-density instances (dense main chain; main chains whose tickets start at the fork "
           "point so that only the window straddling the fork is short) + a long-chain leg (ledger harness, genesis "
           "period 2..3, chains wrapping window and block ring several times, judged by LedgerTrace's C05 checks); "
           "non-trivial = distinct scenario with at least two branches and at least one "
           "out-of-order (orphan) delivery or weight difference between branches",
}
ASSUMPTIONS = [
    "hashes injective, signatures unforgeable",
    "builder nodes (force-wound, unvalidated) + Block::create produce the honest block for a branch",
    "handler-atomic scheduling (add_block holds the blockchain write lock for its whole body)",
    "checkpoints, spv/browser mode, ghost blocks and issuance-file writing are off",
    "genesis period 100 (no purge inside these scenarios) except in the long-chain leg of C05",
]


def scenario_stats(scns):
    seen = set()
    c03 = c04 = c05 = 0
    for s in scns:
        key = json.dumps(s, sort_keys=True)
        if key in seen:
            continue
        seen.add(key)
        blocks = {b["id"]: b for b in s["blocks"]}
        children = {}
        for b in s["blocks"]:
            children.setdefault(b["parent"], []).append(b["id"])
        forks = any(len(v) > 1 for v in children.values())
        delivered = set()
        orphan = False
        rej = False
        for x in s["order"]:
            par = blocks[x]["parent"]
            if par != 0 and par not in delivered:
                orphan = True
            if not blocks[x].get("ok", True) and (par in delivered):
                rej = True
            delivered.add(x)
        if forks:
            c03 += 1
        if rej:
            c04 += 1
        if forks and (orphan or len({b["w"] for b in s["blocks"]}) > 1):
            c05 += 1
    return {"C03": c03, "C04": c04, "C05": c05}


def classify(scn, b):
    """coarse scenario class used in known-finding signatures"""
    blocks = {x["id"]: x for x in scn["blocks"]}
    blk = blocks.get(b["b"])
    if blk is None:
        return "?"
    delivered = set(scn["order"][:b.get("i", 0)])
    par = blk["parent"]
    if par != 0 and par not in delivered:
        return "orphan"
    # is the ancestry connected to the root through delivered blocks?
    x = par
    while x != 0:
        if x not in delivered:
            return "disconnected"
        x = blocks[x]["parent"]
    return "connected"
