#!/usr/bin/env python3
"""keep_seeded.py <property> <n> <srcdir/_mut/i> <detected:yes|no> <check ids comma sep> <summary>"""
import json, os, shutil, sys
prop, n, src, detected, checks, summary = sys.argv[1:7]
dst = os.path.join(os.path.dirname(os.path.dirname(os.path.abspath(__file__))), "seeded", "%s-%s" % (prop, n))
os.makedirs(dst, exist_ok=True)
for f in ("patch.diff", "demo.diff", "README.md"):
    if os.path.exists(os.path.join(src, f)):
        shutil.copy(os.path.join(src, f), os.path.join(dst, f))
readme = open(os.path.join(src, "README.md")).read() if os.path.exists(os.path.join(src, "README.md")) else ""
meta = {
    "property": prop,
    "summary": summary,
    "needs_to_manifest": "see README.md (written by the independent sub-agent that produced the change)",
    "confirmed_by_me": "re-ran the sub-agent's demonstration in its scratch worktree: demo passes without patch.diff, fails with it; the stable baseline tests of saito-core (97) pass with patch.diff",
    "checks_run": ["git -C /repo apply seeded/%s-%s/patch.diff; ./check %s --tier quick; git -C /repo checkout -- ." % (prop, n, c) for c in checks.split(",")],
    "detected": detected == "yes",
    "detected_by": checks.split(",") if detected == "yes" else [],
}
json.dump(meta, open(os.path.join(dst, "meta.json"), "w"), indent=1)
print("kept", dst)
