"""C18: LiteBlock.tla (MC_LiteBlock exhaustive; LiteBlockTrace: TV of every real lite block)."""
import json
import os
import random
import time

from vlib import *
from chk_ledger import run_harness


def run(pid, t, replay=None):
    t0 = time.time()
    wd = workdir(pid)
    rnd = random.Random(seed())
    build_harness()
    maxn = 9 if t == "quick" else 11
    dist = gen_n = 0
    if replay:
        scns = [json.load(open(replay))["scenario"]]
    else:
        cfg = os.path.join(wd, "MC_LiteBlock.cfg")
        write_cfg(cfg, "Spec", dict(MaxN=maxn), invariants=["FaithfulProjection", "MisalignedDetected", "PrintCase"])
        rc, out = tlc("MC_LiteBlock.tla", cfg, wd, workers=8, timeout=2400, heap="8g")
        if not tlc_ok(out):
            raise ToolError("MC_LiteBlock: " + tlc_error_summary(out))
        dist, gen_n = tlc_stats(out)
        base = {json.dumps(s, sort_keys=True): s for s in printed(out, "SCN")}
        scns = list(base.values())
        log("MC_LiteBlock: %d cases (exhaustive for n <= %d)" % (len(scns), maxn))
        # variants: the listed key as spender instead of recipient; a golden ticket among the omitted ones
        extra = []
        for s in scns:
            if s["n"] and rnd.random() < (0.3 if t == "quick" else 1.0):
                extra.append(dict(s, spend_from_key=True))
            if s["n"] and rnd.random() < (0.3 if t == "quick" else 1.0):
                extra.append(dict(s, ticket_at=rnd.randrange(s["n"])))
            # the key touched only through zero-amount slips; several keys in the list, in different orders
            if s["n"] and any(s["keep"]) and rnd.random() < (0.3 if t == "quick" else 1.0):
                extra.append(dict(s, zero=True, spend_from_key=rnd.random() < 0.5))
            if s["n"] and any(s["keep"]) and rnd.random() < (0.4 if t == "quick" else 1.0):
                extra.append(dict(s, keylist=rnd.randint(1, 5), spend_from_key=rnd.random() < 0.3))
        # random patterns for larger blocks
        for _ in range(300 if t == "quick" else 5000):
            n = rnd.randint(10, 64)
            p = rnd.choice([0.0, 0.05, 0.2, 0.5, 0.9])
            extra.append(dict(n=n, keep=[rnd.random() < p for _ in range(n)], spend_from_key=rnd.random() < 0.3,
                              keylist=rnd.choice([0, 0, 1, 2, 3, 4, 5]), zero=rnd.random() < 0.2))
        scns = scns + extra
    spath = os.path.join(wd, "scenarios.jsonl")
    with open(spath, "w") as f:
        for s in scns:
            f.write(json.dumps(s) + "\n")
    tpath = os.path.join(wd, "trace.ndjson")
    run_harness("lite", spath, tpath)
    cfg = os.path.join(wd, "LiteBlockTrace.cfg")
    write_cfg(cfg, "TraceSpec", {}, invariants=["ReportBad"], postcondition="TraceDone")
    txt = open(cfg).read().replace("CONSTANTS\n", "")
    open(cfg, "w").write(txt)
    # one Reset only: split by line count
    lines = open(tpath).readlines()
    chunks = []
    for i in range(0, len(lines), 1500):
        p = os.path.join(wd, "chunk_%03d.ndjson" % (i // 1500))
        open(p, "w").writelines(lines[i:i + 1500])
        chunks.append(p)
    bad, consumed = validate_traces("LiteBlockTrace.tla", cfg, chunks, wd, par=8)
    log("TV: %d events, %d divergences" % (consumed, len(bad)))
    known = load_known()
    violations, known_hits = [], []
    by_scn = {}
    for b in bad:
        by_scn.setdefault(b["scn"], []).append(b)
    for k, bs in sorted(by_scn.items()):
        unmatched = []
        for b in bs:
            sig = dict(kind="trace", why=b["why"], res=b["res"][:80])
            kf = match_known(pid, sig, known)
            if kf:
                known_hits.append(kf)
            else:
                unmatched.append(sig)
        if unmatched:
            violations.append((unmatched[0], write_replay(pid, dict(property=pid, scenario=scns[k], divergences=unmatched,
                                                                    seed=seed(), tier=t))))
    nontrivial = len({json.dumps(s, sort_keys=True) for s in scns if s["n"] >= 2 and not all(s["keep"])})
    coverage = dict(states=max(dist, 1), transitions=max(gen_n, 1), traces_validated_against_impl=len(scns), evaluations=consumed,
                    distinct_nontrivial=nontrivial,
                    rule="cases = every (n, keep pattern) with n <= %d emitted by TLC (exhaustive) + variants (key as spender, key touched only by zero-amount slips, "
                         "several listed keys in six orders incl. unsorted and with duplicates, a golden ticket among the omitted) + seeded random patterns for 10..64 transactions; non-trivial = distinct case "
                         "with at least two transactions and at least one omitted" % maxn,
                    samples=[scns[5], scns[-1]], exhaustive=True, exhaustive_scope="n <= %d, all 2^n key patterns" % maxn,
                    checker_cmd="tlc MC_LiteBlock.tla; harness/bin/lite (real generate_lite_block + wire round trip + real merkle recomputation); tlc LiteBlockTrace.tla",
                    trusted_base=["TLC 1.8.0", "harness lite.rs incl. its 10-line reference subtree hash"])
    write_evidence(pid, t, "model_checking", coverage,
                   ["hashes injective (spec); real blake3 hashes in the harness",
                    "the merging strategy of placeholders is free: any tiling by aligned complete subtrees is accepted"],
                   time.time() - t0, len(violations))
    return finish(pid, violations, known_hits)
