//! C11: sequences of peer inputs (honest traffic interleaved with hostile input) on a whole node.
//! Two nodes run in lockstep: A receives the whole scenario, B only the inputs that are not marked
//! `hostile` (inputs the node has to reject or ignore).  After every step the honest-visible state of
//! both is recorded; the trace monitor demands that no handler call panics or stalls and that the two
//! projections stay equal (rejected input does not disturb what honest peers see).
//! usage: node <scenarios.jsonl> <trace.ndjson> [--skip n]
use std::io::{BufRead, BufReader};
use std::time::Duration;

use saito_core::core::consensus::block::{Block, BlockType};
use saito_core::core::consensus::peers::peer::PeerStatus;
use saito_core::core::consensus::slip::Slip;
use saito_core::core::consensus::transaction::{Transaction, TransactionType};
use saito_core::core::defs::{SaitoHash, SaitoPublicKey};
use saito_core::core::io::network::PeerDisconnectType;
use saito_core::core::io::network_event::NetworkEvent;
use saito_core::core::msg::api_message::ApiMessage;
use saito_core::core::msg::ghost_chain_sync::GhostChainSync;
use saito_core::core::msg::handshake::{HandshakeChallenge, HandshakeResponse};
use saito_core::core::msg::message::Message;
use saito_core::core::process::version::read_pkg_version;
use saito_core::core::util::crypto::{hash, sign};
use saito_verif_harness::fullnode::{FullNode, Queue};
use saito_verif_harness::ledger::{gt_for, spec_for, LedgerWorld, TxDesc, T0};
use saito_verif_harness::node::{key, Key, Node};
use saito_verif_harness::sim::{IoOp, SimClock, SimIo};
use saito_verif_harness::trace::{guarded, install_panic_recorder, Trace, Watchdog};
use serde::Deserialize;
use serde_json::{json, Value};

#[derive(Deserialize, Clone)]
struct Step {
    op: String,
    #[serde(default)]
    conn: u64,
    #[serde(default)]
    kind: String,
    #[serde(default)]
    hostile: bool,
    #[serde(default)]
    q: String,
    #[serde(default)]
    ms: u64,
    #[serde(default)]
    n: u64,
    #[serde(default)]
    blk: usize,
}
#[derive(Deserialize)]
struct Scenario {
    #[serde(default = "dg")]
    g: u64,
    #[serde(default = "dhb")]
    hb: u64,
    /// number of blocks of the honest chain (including genesis)
    #[serde(default = "dchain")]
    chain: usize,
    /// blocks the node holds at the start
    #[serde(default = "dpre")]
    pre: usize,
    steps: Vec<Step>,
    /// the node is a lite (spv) client: it does not validate what it is given, so only "no handler call crashes" is checked
    #[serde(default)]
    spv: bool,
}
fn dg() -> u64 {
    20
}
fn dhb() -> u64 {
    100
}
fn dchain() -> usize {
    6
}
fn dpre() -> usize {
    2
}

struct World {
    lw: LedgerWorld,
    blocks: Vec<Block>,
    creator: Key,
}

impl World {
    fn new(rt: &tokio::runtime::Runtime, scn: &Scenario) -> World {
        let issuance: Vec<(String, u64)> = (0..(scn.chain + 6)).map(|_| ("k1".to_string(), 1_000_000)).collect();
        let mut lw = rt.block_on(LedgerWorld::new(scn.g, scn.hb, 3, &issuance));
        let creator = lw.keys["c"];
        let mut builder = Node::new(creator, lw.cfg());
        let mut blocks = vec![lw.genesis.clone()];
        rt.block_on(builder.force_wind(lw.genesis.clone()));
        for i in 1..scn.chain {
            let parent = blocks[i - 1].clone();
            let ts = parent.timestamp + 2 * scn.hb;
            // with a short retention window the genesis outputs are rebroadcast before they would be used:
            // there every payment spends the previous one (k1 pays itself)
            let short = scn.g < 10 && i > 1;
            let d = TxDesc {
                id: format!("t{}", i),
                signer: "k1".into(),
                ins: vec![if short { format!("t{}.0", i - 1) } else { format!("g{}", i) }],
                outs: vec![(if scn.g < 10 { "k1".into() } else { "k2".into() }, 0)],
                path: vec![],
                edit: None,
                data: None,
                fee: 10,
                tune: false,
            };
            let tx = lw.make_tx(&d, ts).expect("tx");
            let gt = gt_for(&parent, &lw.keys["m"], &creator, ts, i as u64);
            let b = rt
                .block_on(builder.create_block(&creator, spec_for(parent.hash, ts, vec![tx], Some(gt))))
                .expect("honest block");
            rt.block_on(builder.force_wind(b.clone()));
            if let Some(t) = b.transactions.iter().find(|t| t.transaction_type == TransactionType::Normal) {
                if let Some(o) = t.to.first() {
                    lw.register(format!("t{}.0", i), o, b.id);
                }
            }
            blocks.push(b);
        }
        World { lw, blocks, creator }
    }

    /// a valid user transaction spending a genesis output no honest block touches
    fn spare_tx(&self, k: usize, edit: Option<&str>) -> Transaction {
        let d = TxDesc {
            id: format!("s{}", k),
            signer: "k1".into(),
            ins: vec![format!("g{}", self.blocks.len() + k % 5)],
            outs: vec![("k3".into(), 0)],
            path: vec![],
            edit: edit.map(|s| s.to_string()),
            data: None,
            fee: 7,
            tune: false,
        };
        self.lw.make_tx(&d, T0 + 77).expect("spare tx")
    }

    /// block `i` of the honest chain, re-assembled with `f` applied to its transaction list and re-signed
    fn remade(&self, i: usize, f: impl FnOnce(&mut Vec<Transaction>)) -> Block {
        let mut b = self.blocks[i].clone();
        f(&mut b.transactions);
        b.transaction_map.clear();
        b.slips_spent_this_block.clear();
        b.created_hashmap_of_slips_spent_this_block = false;
        b.merkle_root = [0; 32];
        b.merkle_root = b.generate_merkle_root(false, false);
        b.generate_pre_hash();
        b.sign(&self.creator.private);
        let _ = b.generate();
        b
    }
}

/// a signed transaction of every type with 0..4 inputs and outputs of assorted slip types (amounts zero, so that
/// nothing has to exist in the ledger): n encodes type, counts and the slip-type pattern
fn shaped_tx(n: u64, k: &Key) -> Transaction {
    use saito_core::core::consensus::slip::SlipType;
    let types = [TransactionType::Normal, TransactionType::Fee, TransactionType::GoldenTicket, TransactionType::ATR, TransactionType::Vip,
                 TransactionType::SPV, TransactionType::Issuance, TransactionType::BlockStake, TransactionType::Bound];
    let stypes = [SlipType::Normal, SlipType::Bound, SlipType::ATR, SlipType::BlockStake, SlipType::MinerOutput];
    let mut t = Transaction::default();
    t.transaction_type = types[(n % 9) as usize];
    let nin = (n / 9) % 5;
    let nout = (n / 45) % 5;
    let pat = n / 225;
    t.timestamp = T0 + n;
    t.data = if t.transaction_type == TransactionType::GoldenTicket { vec![3u8; 97] } else { vec![n as u8; (n % 40) as usize] };
    for i in 0..nin {
        let mut s = Slip::default();
        s.public_key = k.public;
        s.slip_type = stypes[((pat + i) % 5) as usize];
        s.block_id = 1 + i;
        s.slip_index = i as u8;
        t.add_from_slip(s);
    }
    for i in 0..nout {
        let mut s = Slip::default();
        s.public_key = k.public;
        s.slip_type = stypes[((pat + i + 1) % 5) as usize];
        t.add_to_slip(s);
    }
    t.sign(&k.private);
    t
}

fn msg_buffer(w: &World, st: &Step, hostile_key: &Key) -> Vec<u8> {
    let k = st.kind.as_str();
    let raw = |tag: u8, payload: Vec<u8>| {
        let mut v = vec![tag];
        v.extend(payload);
        v
    };
    match k {
        "garbage" => vec![0xff, 1, 2, 3],
        "empty" => vec![],
        "short_tx" => vec![4, 0, 0, 0],
        "chal" => Message::HandshakeChallenge(HandshakeChallenge { challenge: hash(&st.n.to_be_bytes()) }).serialize(),
        "resp_bad" => {
            let mine = read_pkg_version();
            Message::HandshakeResponse(HandshakeResponse {
                public_key: hostile_key.public,
                signature: [9u8; 64],
                is_lite: false,
                block_fetch_url: "http://evil/".into(),
                challenge: [1u8; 32],
                services: vec![],
                wallet_version: mine,
                core_version: mine,
            })
            .serialize()
        }
        "blocktag" => Message::Block(w.blocks[1].clone()).serialize(),
        "tx_ok" => Message::Transaction(w.spare_tx(st.n as usize, None)).serialize(),
        "tx_forged" => Message::Transaction(w.spare_tx(st.n as usize, Some("forge_sig"))).serialize(),
        "tx_phantom" => Message::Transaction(w.spare_tx(st.n as usize, Some("phantom_input"))).serialize(),
        "tx_overspend" => Message::Transaction(w.spare_tx(st.n as usize, Some("overspend"))).serialize(),
        "tx_wrap" => Message::Transaction(w.spare_tx(st.n as usize, Some("wrap_outputs"))).serialize(),
        "tx_fee" => Message::Transaction(w.spare_tx(st.n as usize, Some("type_fee"))).serialize(),
        "tx_atr" => Message::Transaction(w.spare_tx(st.n as usize, Some("type_atr"))).serialize(),
        "tx_spv" => Message::Transaction(w.spare_tx(st.n as usize, Some("type_spv"))).serialize(),
        "tx_issuance" => Message::Transaction(w.spare_tx(st.n as usize, Some("type_issuance"))).serialize(),
        "tx_noinputs" => {
            let mut t = Transaction::default();
            t.timestamp = T0;
            let mut o = Slip::default();
            o.public_key = hostile_key.public;
            o.amount = 5;
            t.add_to_slip(o);
            t.sign(&hostile_key.private);
            Message::Transaction(t).serialize()
        }
        "tx_typed_noinputs" => {
            // a privileged-typed transaction without inputs (n selects the type)
            let mut t = Transaction::default();
            t.timestamp = T0;
            t.transaction_type = match st.n % 5 {
                0 => TransactionType::Issuance,
                1 => TransactionType::Fee,
                2 => TransactionType::ATR,
                3 => TransactionType::SPV,
                _ => TransactionType::Vip,
            };
            let mut o = Slip::default();
            o.public_key = hostile_key.public;
            o.amount = 5;
            t.add_to_slip(o);
            t.sign(&hostile_key.private);
            Message::Transaction(t).serialize()
        }
        "tx_empty" => Message::Transaction(Transaction::default()).serialize(),
        "tx_shape" => Message::Transaction(shaped_tx(st.n, hostile_key)).serialize(),
        "tx_manyslips" => {
            let mut t = Transaction::default();
            for i in 0..300u64 {
                let mut s = Slip::default();
                s.public_key = hostile_key.public;
                s.amount = i;
                t.add_from_slip(s.clone());
                t.add_to_slip(s);
            }
            t.sign(&hostile_key.private);
            Message::Transaction(t).serialize()
        }
        "gt_short" | "gt_long" | "gt_wrong" => {
            let mut t = Transaction::default();
            t.transaction_type = TransactionType::GoldenTicket;
            t.timestamp = T0 + 5;
            t.data = match k {
                "gt_short" => vec![7u8; 96],
                "gt_long" => vec![7u8; 98],
                _ => vec![7u8; 97],
            };
            let mut s = Slip::default();
            s.public_key = hostile_key.public;
            t.add_from_slip(s.clone());
            t.add_to_slip(s);
            t.sign(&hostile_key.private);
            Message::Transaction(t).serialize()
        }
        "chainreq" | "chainreq_far" | "chainreq_zero" => {
            let (id, h): (u64, SaitoHash) = match k {
                "chainreq" => (1, w.blocks[0].hash),
                "chainreq_far" => (u64::MAX, [7; 32]),
                _ => (0, [0; 32]),
            };
            raw(5, [id.to_be_bytes().as_slice(), h.as_slice(), [3u8; 32].as_slice()].concat())
        }
        "hash_known" => Message::BlockHeaderHash(w.blocks[0].hash, 1).serialize(),
        "hash_zero" => Message::BlockHeaderHash([0; 32], 0).serialize(),
        "hash_far" => Message::BlockHeaderHash(hash(&st.n.to_be_bytes()), u64::MAX).serialize(),
        "hash_unknown" => Message::BlockHeaderHash(hash(&[st.n as u8, 3, st.conn as u8]), w.blocks.len() as u64 + 1 + st.n % 30).serialize(),
        "hash_next" => {
            let b = &w.blocks[st.blk.min(w.blocks.len() - 1)];
            Message::BlockHeaderHash(b.hash, b.id).serialize()
        }
        "ping" => Message::Ping().serialize(),
        "spv" => Message::SPVChain().serialize(),
        "services" => raw(9, vec![]),
        "services_bad" => raw(9, vec![0, 0, 0, 9, 1, 2]),
        "ghostreq" => Message::GhostChainRequest(1, w.blocks[0].hash, [0; 32]).serialize(),
        "ghostreq_far" => Message::GhostChainRequest(u64::MAX, [5; 32], [6; 32]).serialize(),
        "ghost_empty" => Message::GhostChain(GhostChainSync {
            start: [0; 32],
            prehashes: vec![],
            previous_block_hashes: vec![],
            block_ids: vec![],
            block_ts: vec![],
            txs: vec![],
            gts: vec![],
        })
        .serialize(),
        "ghost_fake" => {
            // a made-up continuation of the node's chain, one block above the honest tip
            let n = 3usize;
            let top = w.blocks.len() as u64;
            Message::GhostChain(GhostChainSync {
                start: w.blocks[w.blocks.len() - 1].hash,
                prehashes: (0..n).map(|i| hash(&[i as u8, 1])).collect(),
                previous_block_hashes: (0..n).map(|i| hash(&[i as u8, 2])).collect(),
                block_ids: (0..n).map(|i| top + 1 + i as u64).collect(),
                block_ts: (0..n).map(|i| T0 + 10_000 + i as u64).collect(),
                txs: (0..n).map(|i| i == 1).collect(),
                gts: (0..n).map(|_| true).collect(),
            })
            .serialize()
        }
        "api" => Message::ApplicationMessage(ApiMessage { msg_index: 3, data: vec![1, 2, 3] }).serialize(),
        "api_result" => Message::Result(ApiMessage { msg_index: 3, data: vec![] }).serialize(),
        "api_error" => Message::Error(ApiMessage { msg_index: u32::MAX, data: vec![0; 1000] }).serialize(),
        "keylist" => Message::KeyListUpdate(vec![hostile_key.public; (st.n % 5) as usize]).serialize(),
        "keylist_big" => Message::KeyListUpdate(vec![hostile_key.public; 2000]).serialize(),
        other => panic!("unknown message kind {}", other),
    }
}

/// (announced hash, announced id, buffer) of a fetched-block event
fn fetched(w: &World, st: &Step) -> Option<(SaitoHash, u64, Vec<u8>)> {
    let i = st.blk.min(w.blocks.len() - 1).max(1);
    let honest = &w.blocks[i];
    let r = fetched_inner(w, st);
    // a variant that turned out identical to the honest block (nothing to forge in it) is not hostile input
    if st.hostile && r.0 == honest.hash && r.2 == honest.serialize_for_net(BlockType::Full) {
        return None;
    }
    // block-fetch completions come from the node's own I/O layer for the peer it asked: a hostile peer cannot
    // complete the fetch of a hash the node requested from somebody else, so its deliveries never carry the
    // hash of an honest block
    if st.hostile && w.blocks.iter().any(|b| b.hash == r.0) {
        let nobody = hash(&[st.n as u8, 3, st.conn as u8]);
        return Some((nobody, r.1, r.2));
    }
    Some(r)
}

fn fetched_inner(w: &World, st: &Step) -> (SaitoHash, u64, Vec<u8>) {
    let i = st.blk.min(w.blocks.len() - 1).max(1);
    let honest = &w.blocks[i];
    let ser = |b: &Block| b.serialize_for_net(BlockType::Full);
    // a hash nobody's block has: what a hostile peer announces and then fails to deliver
    let nobody = hash(&[st.n as u8, 3, st.conn as u8]);
    match st.kind.as_str() {
        "next" => (honest.hash, honest.id, ser(honest)),
        "garbage" => (nobody, honest.id, vec![1, 2, 3, 4, 5]),
        "empty" => (nobody, honest.id, vec![]),
        "truncated" => {
            let v = ser(honest);
            (nobody, honest.id, v[..v.len() - 7].to_vec())
        }
        "wrong_hash" => (nobody, honest.id, ser(honest)),
        "wrong_id" => (nobody, honest.id + 5, ser(honest)),
        // an invalid block whose id is the connection number of an honest peer (n = 0: conn 1)
        "bad_tx_peer_id" => {
            let mut b = w.remade(i, |txs| {
                let fee_at = txs.iter().position(|t| t.transaction_type == TransactionType::Fee).unwrap_or(txs.len());
                txs.insert(fee_at, w.spare_tx(st.n as usize, Some("phantom_input")));
            });
            b.id = 1;
            b.generate_pre_hash();
            b.sign(&w.creator.private);
            let _ = b.generate();
            (b.hash, b.id, ser(&b))
        }
        "badsig" => {
            let mut b = honest.clone();
            b.signature[7] ^= 1;
            let _ = b.generate();
            (b.hash, b.id, ser(&b))
        }
        "bad_tx" => {
            let b = w.remade(i, |txs| {
                let fee_at = txs.iter().position(|t| t.transaction_type == TransactionType::Fee).unwrap_or(txs.len());
                txs.insert(fee_at, w.spare_tx(st.n as usize, Some("phantom_input")));
            });
            (b.hash, b.id, ser(&b))
        }
        "tx_shape" => {
            let b = w.remade(i, |txs| {
                let mut t = shaped_tx(st.n, &key(22));
                t.generate_hash_for_signature();
                let fee_at = txs.iter().position(|t| t.transaction_type == TransactionType::Fee).unwrap_or(txs.len());
                txs.insert(fee_at.min((st.n % 3) as usize), t);
            });
            (b.hash, b.id, ser(&b))
        }
        "dup_input_first" => {
            let b = w.remade(i, |txs| {
                txs.insert(0, w.spare_tx(st.n as usize, Some("dup_input")));
            });
            (b.hash, b.id, ser(&b))
        }
        "gt_payload" => {
            let b = w.remade(i, |txs| {
                for t in txs.iter_mut() {
                    if t.transaction_type == TransactionType::GoldenTicket {
                        t.data.pop();
                    }
                }
            });
            (b.hash, b.id, ser(&b))
        }
        "two_gt" => {
            let b = w.remade(i, |txs| {
                if let Some(t) = txs.iter().find(|t| t.transaction_type == TransactionType::GoldenTicket).cloned() {
                    txs.insert(0, t);
                }
            });
            (b.hash, b.id, ser(&b))
        }
        "no_txs" => {
            let b = w.remade(i, |txs| txs.clear());
            (b.hash, b.id, ser(&b))
        }
        "spv_tx" => {
            let b = w.remade(i, |txs| {
                let mut t = Transaction::default();
                t.transaction_type = TransactionType::SPV;
                t.signature[0..32].copy_from_slice(&[4u8; 32]);
                t.generate_hash_for_signature();
                txs.insert(0, t);
            });
            (b.hash, b.id, ser(&b))
        }
        "fee_forged" => {
            let b = w.remade(i, |txs| {
                for t in txs.iter_mut() {
                    if t.transaction_type == TransactionType::Fee && !t.to.is_empty() {
                        t.to[0].amount += 1000;
                    }
                }
            });
            (b.hash, b.id, ser(&b))
        }
        "far_orphan" => {
            let mut b = honest.clone();
            b.id = 1_000_000;
            b.previous_block_hash = [9; 32];
            b.generate_pre_hash();
            b.sign(&w.creator.private);
            let _ = b.generate();
            (b.hash, b.id, ser(&b))
        }
        "id_zero" | "id_zero_child" => {
            let mut b = honest.clone();
            b.id = 0;
            b.generate_pre_hash();
            b.sign(&w.creator.private);
            let _ = b.generate();
            if st.kind == "id_zero" {
                (b.hash, b.id, ser(&b))
            } else {
                // a block that builds on the id-0 block and claims the id after the honest block's
                let mut c = w.blocks[(i + 1).min(w.blocks.len() - 1)].clone();
                c.id = honest.id + 1;
                c.previous_block_hash = b.hash;
                c.generate_pre_hash();
                c.sign(&w.creator.private);
                let _ = c.generate();
                (c.hash, c.id, ser(&c))
            }
        }
        other => panic!("unknown fetched kind {}", other),
    }
}

const HONEST: u8 = 0;
const HOSTILE: u8 = 1;

struct Side {
    f: FullNode,
    name: &'static str,
}

fn new_side(rt: &tokio::runtime::Runtime, w: &World, scn: &Scenario, name: &'static str) -> Side {
    let clock = SimClock::new(T0 + 1_000_000);
    let mut cfg = w.lw.cfg();
    cfg.spv = scn.spv;
    let mut f = FullNode::new(key(1), cfg, SimIo::new(), clock);
    f.consensus.produce_blocks_by_timer = true;
    rt.block_on(async {
        f.init().await;
        for b in w.blocks.iter().take(scn.pre) {
            let b2 = saito_verif_harness::node::over_the_wire(b);
            f.node.add_block(b2).await;
        }
    });
    f.node.io.drain_journal();
    Side { f, name }
}

/// what honest peers can observe of the node; `hostile_conns` are left out
async fn view(f: &FullNode, hostile_conns: &[u64], w: &World) -> Value {
    let bc = f.node.blockchain.read().await;
    let mp = f.node.mempool.read().await;
    let peers = f.peers.read().await;
    let mut keys: Vec<(Vec<u8>, bool)> = bc.utxoset.iter().map(|(k, v)| (k.to_vec(), *v)).collect();
    keys.sort();
    let mut dig = vec![];
    for (k, v) in keys.iter() {
        dig.extend_from_slice(k);
        dig.push(*v as u8);
    }
    // transactions of the honest chain are valid input whoever relays them (a rejected block hands its
    // transactions to the pool): only other pool entries are compared
    let honest_tx = |s: &[u8; 64]| w.blocks.iter().any(|b| b.transactions.iter().any(|t| &t.signature == s));
    let mut pool: Vec<String> = mp.transactions.keys().filter(|s| !honest_tx(s)).map(|s| hex::encode(&s[0..6])).collect();
    pool.sort();
    let mut waiting: Vec<String> = f.consensus.txs_for_mempool.iter().map(|t| hex::encode(&t.signature[0..6])).collect();
    waiting.sort();
    let mut lc = vec![];
    let top = bc.get_latest_block_id();
    for i in top.saturating_sub(12)..=top {
        if let Some(h) = bc.blockring.get_longest_chain_block_hash_at_block_id(i) {
            lc.push(hex::encode(&h[0..6]));
        }
    }
    let mut ps = vec![];
    for (idx, p) in peers.index_to_peers.iter() {
        if hostile_conns.contains(idx) {
            continue;
        }
        let status = match p.peer_status {
            PeerStatus::Connected => "connected",
            PeerStatus::Connecting => "connecting",
            PeerStatus::Disconnected(_, _) => "disconnected",
        };
        // how many rejected blocks this (honest) peer has been charged with: the limiter's counter is private,
        // its Debug output is not
        let dbg = format!("{:?}", p.invalid_block_limiter);
        let charged: u64 = dbg
            .split("request_count: ")
            .nth(1)
            .and_then(|r| r.split(|c: char| !c.is_ascii_digit()).next())
            .and_then(|d| d.parse().ok())
            .unwrap_or(0);
        ps.push(json!({"conn": idx, "status": status, "key": p.public_key.map(|k| hex::encode(&k[0..4])).unwrap_or_default(),
                       "keys": p.key_list.len(), "charged": charged}));
    }
    ps.sort_by_key(|v| v["conn"].as_u64().unwrap());
    let honest_block = |h: &SaitoHash| w.blocks.iter().any(|b| &b.hash == h);
    let mut queues = vec![];
    for (p, q) in f.routing.blockchain_sync_state.verif_queues() {
        if hostile_conns.contains(&p) || q.is_empty() {
            continue;
        }
        // wanting a block of the honest chain is never a disturbance (a block that arrives before its parent
        // makes the node ask for the parent): only other entries are compared
        let items: Vec<Value> = q.iter().filter(|(_, h, _, _)| !honest_block(h)).map(|(id, h, st, _)| json!([id, hex::encode(&h[0..6]), st])).collect();
        if items.is_empty() {
            continue;
        }
        queues.push(json!({"conn": p, "q": items}));
    }
    let mut pend = vec![];
    for (p, q) in f.routing.blockchain_sync_state.verif_pending() {
        let n = q.iter().filter(|(_, h)| !honest_block(h)).count();
        if hostile_conns.contains(&p) || n == 0 {
            continue;
        }
        pend.push(json!({"conn": p, "n": n}));
    }
    json!({"tip": hex::encode(&bc.get_latest_block_hash()[0..6]), "tiph": top, "lc": lc,
           "utxo": hex::encode(&hash(&dig)[0..8]), "nutxo": keys.len(),
           "pool": pool, "peers": ps, "queues": queues, "pending": pend,
           // internal staging, not compared: stored blocks, transactions waiting for the pool, tickets held
           "internal": {"blocks": bc.blocks.len(), "waiting": waiting, "tickets": mp.golden_tickets.len()}})
}

/// what the node sent to honest peers during a step
fn sent_to_honest(ops: &[IoOp], hostile_conns: &[u64], w: &World) -> Vec<Value> {
    let mut v = vec![];
    for op in ops {
        match op {
            IoOp::Send { peer, buf } if !hostile_conns.contains(peer) => {
                v.push(json!([peer, "send", buf.first().copied().unwrap_or(0)]));
            }
            IoOp::Fetch { peer, id, hash, .. } if !hostile_conns.contains(peer) && !w.blocks.iter().any(|b| &b.hash == hash) => {
                v.push(json!([peer, "fetch", id]))
            }
            IoOp::Disconnect { peer } if !hostile_conns.contains(peer) => v.push(json!([peer, "disconnect", 0])),
            _ => {}
        }
    }
    v
}

fn qof(s: &str) -> Queue {
    match s {
        "verify" => Queue::Verification,
        "consensus" => Queue::Consensus,
        _ => Queue::Router,
    }
}

/// apply one step to one side; returns (result string, handler return)
fn apply(rt: &tokio::runtime::Runtime, side: &mut Side, w: &World, st: &Step, hostile_key: &Key, honest_key: &Key,
         wd: &Watchdog, label: &str) -> String {
    wd.pet(&format!("{} {}", label, side.name));
    let origin = if st.hostile { HOSTILE } else { HONEST };
    let f = &mut side.f;
    f.origin = origin;
    // inputs are assembled before the guarded section: a panic while building one is a harness error
    let prepared: Option<NetworkEvent> = match st.op.as_str() {
        "msg" => Some(NetworkEvent::IncomingNetworkMessage { peer_index: st.conn, buffer: msg_buffer(w, st, hostile_key) }),
        "fetched" => match fetched(w, st) {
            Some((block_hash, block_id, buffer)) => Some(NetworkEvent::BlockFetched { block_hash, block_id, peer_index: st.conn, buffer }),
            None => return "noop".to_string(),
        },
        _ => None,
    };
    let r = guarded(|| {
        rt.block_on(async {
            match st.op.as_str() {
                "open" => {
                    f.net(NetworkEvent::PeerConnectionResult { result: Ok((st.conn, None)) }).await;
                }
                "close" => {
                    f.net(NetworkEvent::PeerDisconnected { peer_index: st.conn, disconnect_type: PeerDisconnectType::ExternalDisconnect })
                        .await;
                }
                "auth" => {
                    // the peer answers the node's challenge honestly with its own key
                    let k = if st.kind == "hostile" { hostile_key } else { honest_key };
                    let mut chal = None;
                    {
                        let peers = f.peers.read().await;
                        if let Some(p) = peers.index_to_peers.get(&st.conn) {
                            chal = p.challenge_for_peer;
                        }
                    }
                    if let Some(c) = chal {
                        let mine = read_pkg_version();
                        let resp = HandshakeResponse {
                            public_key: k.public,
                            signature: sign(&c, &k.private),
                            is_lite: false,
                            block_fetch_url: format!("http://peer{}/", st.conn),
                            challenge: hash(&[st.conn as u8]),
                            services: vec![],
                            wallet_version: mine,
                            core_version: mine,
                        };
                        f.net(NetworkEvent::IncomingNetworkMessage { peer_index: st.conn, buffer: Message::HandshakeResponse(resp).serialize() })
                            .await;
                    }
                }
                "msg" | "fetched" => {
                    f.net(prepared.unwrap()).await;
                }
                "flood" => {
                    for j in 0..st.n {
                        let buffer = match st.kind.as_str() {
                            "keylist" => Message::KeyListUpdate(vec![hostile_key.public]).serialize(),
                            "hash" => Message::BlockHeaderHash(hash(&[j as u8, 3, st.conn as u8]), w.blocks.len() as u64 + 1 + j % 30).serialize(),
                            "chal" => Message::HandshakeChallenge(HandshakeChallenge { challenge: hash(&j.to_be_bytes()) }).serialize(),
                            _ => Message::Ping().serialize(),
                        };
                        f.net(NetworkEvent::IncomingNetworkMessage { peer_index: st.conn, buffer }).await;
                    }
                }
                "fetchfail" => {
                    if st.kind == "nobody" {
                        // fetches of the hashes the hostile peer announced (flood kind "hash" / hash_unknown) fail
                        for j in 0..st.n.max(1) {
                            f.net(NetworkEvent::BlockFetchFailed { block_hash: hash(&[j as u8, 3, st.conn as u8]), peer_index: st.conn,
                                                                   block_id: w.blocks.len() as u64 + 1 + j % 30 }).await;
                        }
                    } else {
                        let b = &w.blocks[st.blk.min(w.blocks.len() - 1)];
                        f.net(NetworkEvent::BlockFetchFailed { block_hash: b.hash, peer_index: st.conn, block_id: b.id }).await;
                    }
                }
                "run" => {
                    f.run(qof(&st.q), HONEST).await;
                }
                "drain" => {
                    f.drain(HONEST, 10_000).await;
                }
                "tick" => {
                    f.tick(st.ms).await;
                }
                other => panic!("unknown op {}", other),
            }
            // whatever a hostile input left in the internal queues is processed at once
            if origin == HOSTILE {
                f.drain(HOSTILE, 10_000).await;
            }
        })
    });
    wd.pause();
    side.f.origin = HONEST;
    match r {
        Ok(()) => "ok".to_string(),
        Err(p) => format!("Panic:{}", p),
    }
}

fn main() {
    let args: Vec<String> = std::env::args().collect();
    install_panic_recorder();
    saito_verif_harness::trace::init_logger_from_env();
    let skip: usize = args.iter().position(|a| a == "--skip").map(|i| args[i + 1].parse().unwrap()).unwrap_or(0);
    let rt = tokio::runtime::Builder::new_current_thread().build().unwrap();
    let mut trace = Trace::create(&args[2]);
    let wd = Watchdog::start(Duration::from_secs(20), format!("{}.stall", args[2]));
    let f = BufReader::new(std::fs::File::open(&args[1]).expect("scenarios"));
    let (hostile_key, honest_key) = (key(22), key(21));
    let mut count = 0;
    let mut cache: Option<(u64, u64, usize, World)> = None;
    for (k, line) in f.lines().enumerate() {
        let line = line.unwrap();
        if line.trim().is_empty() || k < skip {
            continue;
        }
        let scn: Scenario = serde_json::from_str(&line).expect("scenario");
        let reuse = matches!(&cache, Some((g, hb, n, _)) if *g == scn.g && *hb == scn.hb && *n == scn.chain);
        if !reuse {
            // the honest chain is produced with the real block producer: a panic there is a finding, not a tool error
            match guarded(|| World::new(&rt, &scn)) {
                Ok(wnew) => cache = Some((scn.g, scn.hb, scn.chain, wnew)),
                Err(p) => {
                    trace.emit(json!({"ev": "Step", "crash_only": scn.spv, "last": true, "complete": false, "chain": scn.chain, "scn": k, "i": 0, "op": "build", "conn": 0,
                        "kind": "honest-chain", "hostile": false, "res": format!("Panic:{}", p), "resb": "skipped", "va": {}, "vb": {}, "sa": [], "sb": [],
                        "pa": [0, 0, 0], "pb": [0, 0, 0]}));
                    count += 1;
                    continue;
                }
            }
        }
        let w = &cache.as_ref().unwrap().3;
        let mut a = new_side(&rt, w, &scn, "A");
        let mut b = new_side(&rt, w, &scn, "B");
        // connections that only ever carry hostile input are invisible to honest peers
        let mut hostile_conns: Vec<u64> = scn.steps.iter().filter(|s| s.hostile).map(|s| s.conn).collect();
        hostile_conns.retain(|c| !scn.steps.iter().any(|s| !s.hostile && s.conn == *c && s.op != "run" && s.op != "drain" && s.op != "tick"));
        hostile_conns.sort();
        hostile_conns.dedup();
        trace.emit(json!({"ev": "Reset", "scn": k, "hostile_conns": hostile_conns,
            "va": rt.block_on(view(&a.f, &hostile_conns, w)), "vb": rt.block_on(view(&b.f, &hostile_conns, w))}));
        for (i, st) in scn.steps.iter().enumerate() {
            let label = format!("scn {} step {}", k, i + 1);
            a.f.node.io.drain_journal();
            b.f.node.io.drain_journal();
            let ra = apply(&rt, &mut a, w, st, &hostile_key, &honest_key, &wd, &label);
            let rb = if st.hostile { "skipped".to_string() } else { apply(&rt, &mut b, w, st, &hostile_key, &honest_key, &wd, &label) };
            let ja = a.f.node.io.drain_journal();
            let jb = b.f.node.io.drain_journal();
            let dead = ra.starts_with("Panic") || rb.starts_with("Panic");
            let (va, vb) = if dead { (json!({}), json!({})) } else { (rt.block_on(view(&a.f, &hostile_conns, w)), rt.block_on(view(&b.f, &hostile_conns, w))) };
            // did the scenario deliver every honest block (and run the queues)?
            let last = i + 1 == scn.steps.len();
            let complete = (scn.pre..scn.chain).all(|h| scn.steps.iter().any(|s| !s.hostile && s.op == "fetched" && s.kind == "next" && s.blk == h))
                && scn.steps.last().map(|s| s.op == "drain").unwrap_or(false)
                // out-of-order completion of fetches is the subject of C15, not of this check
                && {
                    let order: Vec<usize> = scn.steps.iter().filter(|s| !s.hostile && s.op == "fetched" && s.kind == "next").map(|s| s.blk).collect();
                    order.windows(2).all(|w| w[0] < w[1])
                };
            trace.emit(json!({"ev": "Step", "crash_only": scn.spv, "last": last, "complete": complete && !scn.spv, "chain": scn.chain, "scn": k, "i": i + 1, "op": st.op, "conn": st.conn, "kind": st.kind, "hostile": st.hostile,
                "res": ra, "resb": rb, "va": va, "vb": vb,
                "sa": sent_to_honest(&ja, &hostile_conns, w), "sb": sent_to_honest(&jb, &hostile_conns, w),
                "pa": [a.f.pending(Queue::Verification, HONEST), a.f.pending(Queue::Consensus, HONEST), a.f.pending(Queue::Router, HONEST)],
                "pb": [b.f.pending(Queue::Verification, HONEST), b.f.pending(Queue::Consensus, HONEST), b.f.pending(Queue::Router, HONEST)]}));
            if dead {
                break;
            }
        }
        count += 1;
    }
    trace.flush();
    eprintln!("node: {} scenarios, {} events", count, trace.n);
}
