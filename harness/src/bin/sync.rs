//! C15: two whole nodes connected by an in-memory network; the harness is the scheduler that picks which
//! pending message, block-fetch completion or internal queue item runs next.
//! usage: sync <scenarios.jsonl> <trace.ndjson> [--skip n]
//! scenario: {g, hb, p, la, lb, seed, batch, mode}  p = shared prefix (blocks), la/lb = blocks of A / B beyond it
use std::collections::VecDeque;
use std::io::{BufRead, BufReader};
use std::time::Duration;

use rand::rngs::StdRng;
use rand::{Rng, SeedableRng};
use saito_core::core::consensus::block::Block;
use saito_core::core::defs::SaitoHash;
use saito_core::core::io::network_event::NetworkEvent;
use saito_core::core::process::process_event::ProcessEvent;
use saito_core::core::util::configuration::PeerConfig;
use saito_verif_harness::fullnode::{FullNode, Queue};
use saito_verif_harness::ledger::{gt_for, spec_for, LedgerWorld, TxDesc};
use saito_verif_harness::node::{key, over_the_wire, Key, Node};
use saito_verif_harness::sim::{IoOp, SimClock, SimIo};
use saito_verif_harness::trace::{guarded, install_panic_recorder, Trace, Watchdog};
use serde::Deserialize;
use serde_json::{json, Value};

#[derive(Deserialize, Clone)]
struct Scenario {
    #[serde(default = "dg")]
    g: u64,
    #[serde(default = "dhb")]
    hb: u64,
    p: usize,
    la: usize,
    lb: usize,
    #[serde(default)]
    seed: u64,
    #[serde(default = "dbatch")]
    batch: u64,
    /// "random": seeded random choice among everything pending; "fifo": oldest first; "lifo": newest first
    #[serde(default = "dmode")]
    mode: String,
    /// only evaluate the fork-point estimate (no message exchange)
    #[serde(default)]
    estimate_only: bool,
    /// the peer held the syncing node's branch first and reorganised onto its own (side blocks at every height of the fork)
    #[serde(default)]
    b_knows_a: bool,
    /// this many block fetches fail once before they are served (transient failures)
    #[serde(default)]
    fails: usize,
    /// the syncing node is a lite (spv) client: it asks for a ghost chain and fetches lite blocks
    #[serde(default)]
    lite: bool,
}
fn dg() -> u64 {
    200
}
fn dhb() -> u64 {
    100
}
fn dbatch() -> u64 {
    10
}
fn dmode() -> String {
    "random".into()
}

struct Chains {
    lw: LedgerWorld,
    prefix: Vec<Block>,
    a: Vec<Block>,
    b: Vec<Block>,
}

/// one more block on `parent`, spending genesis output `gi`
fn extend(rt: &tokio::runtime::Runtime, lw: &LedgerWorld, builder: &mut Node, creator: &Key, parent: &Block, gi: usize, tag: &str,
          hb: u64, gap: u64) -> Block {
    let ts = parent.timestamp + gap * hb;
    let d = TxDesc {
        id: format!("{}{}", tag, gi),
        signer: "k1".into(),
        ins: vec![format!("g{}", gi)],
        // every third block pays the key of node A ("c"): a lite client on that key has something to fetch
        outs: vec![(if gi % 3 == 0 { "c".to_string() } else { "k2".to_string() }, 0)],
        path: vec![],
        edit: None,
        data: Some(format!("{}-{}", tag, gi)),
        fee: 10,
        tune: false,
    };
    let tx = lw.make_tx(&d, ts).expect("tx");
    // a ticket in every other block: enough for the ticket-density rule, and the mining difficulty (up one per
    // ticket, down one without) stays flat however long the chain is
    let gt = if parent.id % 2 == 1 { Some(gt_for(parent, &lw.keys["m"], creator, ts, gi as u64)) } else { None };
    let b = rt
        .block_on(builder.create_block(creator, spec_for(parent.hash, ts, vec![tx], gt)))
        .expect("block");
    rt.block_on(builder.force_wind(b.clone()));
    b
}

fn build(rt: &tokio::runtime::Runtime, s: &Scenario) -> Chains {
    let n = s.p + s.la + s.lb + 4;
    let issuance: Vec<(String, u64)> = (0..n).map(|_| ("k1".to_string(), 100_000)).collect();
    let lw = rt.block_on(LedgerWorld::new(s.g, s.hb, 2, &issuance));
    let creator = lw.keys["c"];
    let other = key(7);
    let mut prefix = vec![];
    let mut ba = Node::new(creator, lw.cfg());
    let mut bb = Node::new(other, lw.cfg());
    // with an empty prefix the two chains do not even share the genesis block: B's genesis is built separately
    if s.p >= 1 {
        prefix.push(lw.genesis.clone());
        rt.block_on(ba.force_wind(lw.genesis.clone()));
        rt.block_on(bb.force_wind(lw.genesis.clone()));
        for i in 1..s.p {
            let b = extend(rt, &lw, &mut ba, &creator, &prefix[i - 1], i, "p", s.hb, 2);
            rt.block_on(bb.force_wind(b.clone()));
            prefix.push(b);
        }
    }
    let mut a = vec![];
    let mut b = vec![];
    if s.p == 0 {
        if s.la > 0 {
            a.push(lw.genesis.clone());
            rt.block_on(ba.force_wind(lw.genesis.clone()));
        }
        let iss: Vec<_> = issuance.iter().map(|(k, amt)| (lw.keys[k].public, *amt)).collect();
        let gb = rt.block_on(bb.create_genesis(&other, saito_verif_harness::ledger::T0 + 7, &iss));
        rt.block_on(bb.force_wind(gb.clone()));
        b.push(gb);
    }
    while a.len() < s.la {
        let parent = a.last().or(prefix.last()).unwrap().clone();
        let i = s.p + a.len();
        a.push(extend(rt, &lw, &mut ba, &creator, &parent, i, "a", s.hb, 2));
    }
    while b.len() < s.lb {
        let parent = b.last().or(prefix.last()).unwrap().clone();
        let i = s.p + b.len();
        b.push(extend(rt, &lw, &mut bb, &other, &parent, i, "b", s.hb, 2));
    }
    Chains { lw, prefix, a, b }
}

struct Pending {
    /// (destination node 0/1, event description, the event)
    wire: VecDeque<(usize, String, NetworkEvent)>,
    fetches: VecDeque<(usize, SaitoHash, u64, u64, bool)>, // (requesting node, hash, id, peer index at requester, lite block wanted)
}

const A: usize = 0;
const B: usize = 1;
/// peer index under which node X knows the other node
const IDX: [u64; 2] = [1, 101];

fn collect(nodes: &mut [FullNode; 2], pend: &mut Pending, log: &mut Vec<Value>) {
    for x in 0..2 {
        let other = 1 - x;
        for op in nodes[x].node.io.drain_journal() {
            match op {
                IoOp::Send { peer, buf } if peer == IDX[x] => {
                    let tag = buf.first().copied().unwrap_or(0);
                    if tag == 6 && buf.len() >= 41 {
                        log.push(json!({"from": x, "announce": u64::from_be_bytes(buf[33..41].try_into().unwrap())}));
                    }
                    pend.wire.push_back((other, format!("msg{}", tag), NetworkEvent::IncomingNetworkMessage { peer_index: IDX[other], buffer: buf }));
                }
                IoOp::SendAll { buf, excluded } if !excluded.contains(&IDX[x]) => {
                    let tag = buf.first().copied().unwrap_or(0);
                    pend.wire.push_back((other, format!("msg{}", tag), NetworkEvent::IncomingNetworkMessage { peer_index: IDX[other], buffer: buf }));
                }
                IoOp::Fetch { hash, peer, id, url } if peer == IDX[x] => {
                    pend.fetches.push_back((x, hash, id, peer, url.contains("/lite-block/")));
                }
                IoOp::Connect { peer, .. } => {
                    // the outgoing connection of A is established: both sides learn about it
                    pend.wire.push_back((x, "connected".into(), NetworkEvent::PeerConnectionResult { result: Ok((peer, None)) }));
                    pend.wire.push_back((other, "connected".into(), NetworkEvent::PeerConnectionResult { result: Ok((IDX[other], Some("10.0.0.1".into()))) }));
                }
                _ => {}
            }
        }
    }
}

fn tip(rt: &tokio::runtime::Runtime, f: &FullNode) -> (u64, SaitoHash) {
    rt.block_on(async {
        let bc = f.node.blockchain.read().await;
        (bc.get_latest_block_id(), bc.get_latest_block_hash())
    })
}

fn run(rt: &tokio::runtime::Runtime, scn: &Scenario, k: usize, trace: &mut Trace, wd: &Watchdog) {
    let ch = build(rt, scn);
    let mut cfg_a = ch.lw.cfg();
    cfg_a.spv = scn.lite;
    cfg_a.peers.push(PeerConfig { host: "nodeb".into(), port: 12101, protocol: "http".into(), synctype: "full".into() });
    if let Some(s) = cfg_a.server.as_mut() {
        s.block_fetch_batch_size = scn.batch;
    }
    let mut cfg_b = ch.lw.cfg();
    if let Some(s) = cfg_b.server.as_mut() {
        s.block_fetch_batch_size = scn.batch;
    }
    let clock = SimClock::new(saito_verif_harness::ledger::T0 + 10_000_000);
    let mut nodes = [
        FullNode::new(key(1), cfg_a, SimIo::new(), clock.clone()),
        FullNode::new(key(2), cfg_b, SimIo::new(), clock.clone()),
    ];
    for f in nodes.iter_mut() {
        f.consensus.produce_blocks_by_timer = false;
    }
    rt.block_on(async {
        // start-up as in the binaries: the consensus handler loads what is on disk (nothing) first
        for f in nodes.iter_mut() {
            f.consensus.on_init().await;
            f.consensus.generate_genesis_block = false;
            f.collect();
        }
        for blk in ch.prefix.iter().chain(ch.a.iter()) {
            nodes[A].node.add_block(over_the_wire(blk)).await;
        }
        if scn.b_knows_a {
            for blk in ch.prefix.iter().chain(ch.a.iter()) {
                nodes[B].node.add_block(over_the_wire(blk)).await;
            }
            for blk in ch.b.iter() {
                nodes[B].node.add_block(over_the_wire(blk)).await;
            }
        } else {
            for blk in ch.prefix.iter().chain(ch.b.iter()) {
                nodes[B].node.add_block(over_the_wire(blk)).await;
            }
        }
    });
    let (ida, ha) = tip(rt, &nodes[A]);
    let (idb, hb) = tip(rt, &nodes[B]);
    let want_a = ch.a.last().or(ch.prefix.last()).map(|b| b.hash).unwrap_or([0; 32]);
    let want_b = ch.b.last().or(ch.prefix.last()).map(|b| b.hash).unwrap_or([0; 32]);
    trace.emit(json!({"ev": "Reset", "scn": k, "p": scn.p, "la": scn.la, "lb": scn.lb, "ida": ida, "idb": idb,
        "setup_ok": ha == want_a && hb == want_b, "mode": scn.mode, "batch": scn.batch}));

    // the fork-point estimate B computes for A's chain summary (and A for B's), straight from the two functions
    let est = |x: usize, nodes: &[FullNode; 2]| -> Value {
        rt.block_on(async {
            let me = nodes[x].node.blockchain.read().await;
            let them = nodes[1 - x].node.blockchain.read().await;
            let their_id = them.get_latest_block_id();
            let fork = them.generate_fork_id(their_id).unwrap_or([0; 32]);
            let r = guarded(|| me.generate_last_shared_ancestor(their_id, fork));
            match r {
                Ok(e) => json!({"est": e, "res": "ok"}),
                Err(p) => json!({"est": 0, "res": format!("Panic:{}", p)}),
            }
        })
    };
    let eb = est(B, &nodes);
    let ea = est(A, &nodes);
    trace.emit(json!({"ev": "Estimate", "scn": k, "i": 0, "by": "B", "p": scn.p, "mine": idb, "theirs": ida, "est": eb["est"], "res": eb["res"]}));
    trace.emit(json!({"ev": "Estimate", "scn": k, "i": 0, "by": "A", "p": scn.p, "mine": ida, "theirs": idb, "est": ea["est"], "res": ea["res"]}));
    if scn.estimate_only {
        return;
    }

    let mut r = StdRng::seed_from_u64(scn.seed);
    let mut pend = Pending { wire: VecDeque::new(), fetches: VecDeque::new() };
    let mut announced: Vec<Value> = vec![];
    let mut steps = 0usize;
    let mut ticks = 0usize;
    let mut res = "ok".to_string();
    let mut fetched_ids: Vec<u64> = vec![];
    let mut fails_left = scn.fails;
    let mut lite_fetches = 0usize;
    wd.pet(&format!("scn {} init", k));
    let r0 = guarded(|| {
        rt.block_on(async {
            for f in nodes.iter_mut() {
                f.routing.on_init().await;
                f.collect();
            }
            // the reconnection timer of A opens the connection
            nodes[A].tick(2500).await;
        })
    });
    if let Err(p) = r0 {
        res = format!("Panic:{}", p);
    }
    collect(&mut nodes, &mut pend, &mut announced);
    while res == "ok" && steps < 20_000 {
        // everything that could run next
        let mut choices: Vec<(u8, usize)> = vec![]; // (kind, index / node)
        if !pend.wire.is_empty() {
            choices.push((0, 0));
        }
        if !pend.fetches.is_empty() {
            choices.push((1, 0));
        }
        for x in 0..2 {
            for (qi, q) in [Queue::Verification, Queue::Consensus, Queue::Router].iter().enumerate() {
                if nodes[x].pending(*q, 0) > 0 {
                    choices.push((2 + qi as u8, x));
                }
            }
        }
        if choices.is_empty() {
            let (ia, xa) = tip(rt, &nodes[A]);
            let (ib, xb) = tip(rt, &nodes[B]);
            if (ia, xa) == (ib, xb) || ticks >= 40 {
                break;
            }
            // nothing in flight: let the timers run (reconnection / retry of fetches)
            ticks += 1;
            wd.pet(&format!("scn {} tick {}", k, ticks));
            let rr = guarded(|| rt.block_on(async {
                nodes[A].tick(2500).await;
                nodes[B].tick(2500).await;
            }));
            if let Err(p) = rr {
                res = format!("Panic:{}", p);
            }
            collect(&mut nodes, &mut pend, &mut announced);
            continue;
        }
        let (kind, x) = match scn.mode.as_str() {
            "fifo" => choices[0],
            "lifo" => *choices.last().unwrap(),
            _ => choices[r.gen_range(0..choices.len())],
        };
        steps += 1;
        wd.pet(&format!("scn {} step {}", k, steps));
        let rr = guarded(|| {
            rt.block_on(async {
                match kind {
                    0 => {
                        let i = match scn.mode.as_str() {
                            "random" => r.gen_range(0..pend.wire.len().min(4)),
                            _ => 0,
                        };
                        let (dst, _what, ev) = pend.wire.remove(i).unwrap();
                        nodes[dst].net(ev).await;
                    }
                    1 => {
                        // completions of concurrent fetches come back in any order
                        let i = match scn.mode.as_str() {
                            "fifo" => 0,
                            "lifo" => pend.fetches.len() - 1,
                            _ => r.gen_range(0..pend.fetches.len()),
                        };
                        let (req, hash, id, peer, want_lite) = pend.fetches.remove(i).unwrap();
                        // the serving node answers from its block files, as its HTTP endpoint does
                        let buf = {
                            let suffix = format!("-{}.sai", hex::encode(hash));
                            nodes[1 - req].node.io.files().iter().find(|(name, _)| name.ends_with(&suffix)).map(|(_, v)| v.clone())
                        };
                        // a lite client is served the projection of the block onto its key
                        let buf = match (want_lite, buf) {
                            (true, Some(bytes)) => match Block::deserialize_from_net(&bytes) {
                                Ok(mut full) => {
                                    let _ = full.generate();
                                    let keylist = vec![nodes[req].node.key.public];
                                    Some(full.generate_lite_block(keylist).serialize_for_net(saito_core::core::consensus::block::BlockType::Full))
                                }
                                Err(_) => None,
                            },
                            (_, b) => b,
                        };
                        if want_lite {
                            lite_fetches += 1;
                        }
                        fetched_ids.push(id);
                        let buf = if fails_left > 0 && r.gen_bool(0.5) {
                            fails_left -= 1;
                            None
                        } else {
                            buf
                        };
                        let ev = match buf {
                            Some(buffer) if !buffer.is_empty() => NetworkEvent::BlockFetched { block_hash: hash, block_id: id, peer_index: peer, buffer },
                            _ => NetworkEvent::BlockFetchFailed { block_hash: hash, peer_index: peer, block_id: id },
                        };
                        nodes[req].net(ev).await;
                    }
                    q => {
                        let qq = [Queue::Verification, Queue::Consensus, Queue::Router][(q - 2) as usize];
                        nodes[x].run(qq, 0).await;
                    }
                }
            })
        });
        if let Err(p) = rr {
            res = format!("Panic:{}", p);
        }
        collect(&mut nodes, &mut pend, &mut announced);
    }
    wd.pause();
    let (ia, xa) = tip(rt, &nodes[A]);
    let (ib, xb) = tip(rt, &nodes[B]);
    let stored_a = rt.block_on(async { nodes[A].node.blockchain.read().await.blocks.len() });
    // lite client: which blocks of the peer's chain touch its key, and what it holds for them
    let (mut touching, mut held_full, mut wallet_a, mut ledger_a) = (vec![], vec![], 0u64, 0u64);
    if scn.lite {
        rt.block_on(async {
            let me = nodes[A].node.key.public;
            let bca = nodes[A].node.blockchain.read().await;
            let bcb = nodes[B].node.blockchain.read().await;
            for blk in ch.prefix.iter().chain(ch.b.iter()) {
                let touches = blk.transactions.iter().any(|t| t.from.iter().any(|s| s.public_key == me) || t.to.iter().any(|s| s.public_key == me));
                if touches {
                    touching.push(blk.id);
                    if let Some(mine) = bca.blocks.get(&blk.hash) {
                        let has = mine.transactions.iter().any(|t| {
                            t.transaction_type != saito_core::core::consensus::transaction::TransactionType::SPV
                                && (t.from.iter().any(|s| s.public_key == me) || t.to.iter().any(|s| s.public_key == me))
                        });
                        if has || mine.block_type == saito_core::core::consensus::block::BlockType::Pruned {
                            held_full.push(blk.id);
                        }
                    }
                }
            }
            wallet_a = nodes[A].node.wallet.read().await.get_available_balance();
            for (k, v) in bcb.utxoset.iter() {
                if *v {
                    if let Ok(s) = saito_core::core::consensus::slip::Slip::parse_slip_from_utxokey(k) {
                        if s.public_key == me {
                            ledger_a += s.amount;
                        }
                    }
                }
            }
        });
    }
    let ann: Vec<u64> = announced.iter().filter(|v| v["from"] == 1).filter_map(|v| v["announce"].as_u64()).collect();
    trace.emit(json!({"ev": "End", "scn": k, "i": 1, "p": scn.p, "la": scn.la, "lb": scn.lb, "res": res, "steps": steps, "ticks": ticks,
        "ida": ia, "idb": ib, "same_tip": xa == xb, "b_on_own_tip": xb == want_b, "a_on_b_tip": xa == want_b,
        "announced_by_b": ann, "fetched": fetched_ids, "stored_a": stored_a, "budget_hit": steps >= 20_000,
        "lite": scn.lite, "lite_fetches": lite_fetches, "touching": touching, "held": held_full, "wallet_a": wallet_a.to_string(), "ledger_a": ledger_a.to_string()}));
}

fn main() {
    let args: Vec<String> = std::env::args().collect();
    install_panic_recorder();
    saito_verif_harness::trace::init_logger_from_env();
    let skip: usize = args.iter().position(|a| a == "--skip").map(|i| args[i + 1].parse().unwrap()).unwrap_or(0);
    let rt = tokio::runtime::Builder::new_current_thread().build().unwrap();
    let mut trace = Trace::create(&args[2]);
    let wd = Watchdog::start(Duration::from_secs(60), format!("{}.stall", args[2]));
    let f = BufReader::new(std::fs::File::open(&args[1]).expect("scenarios"));
    let mut count = 0;
    for (k, line) in f.lines().enumerate() {
        let line = line.unwrap();
        if line.trim().is_empty() || k < skip {
            continue;
        }
        let scn: Scenario = serde_json::from_str(&line).expect("scenario");
        wd.pet(&format!("scn {} build", k));
        run(&rt, &scn, k, &mut trace, &wd);
        wd.pause();
        count += 1;
    }
    trace.flush();
    eprintln!("sync: {} scenarios, {} events", count, trace.n);
}
