//! Drives the real BlockchainSyncState with scenarios generated from MC_FetchSched (C16).
//! usage: sched <scenarios.jsonl> <trace.ndjson>
use std::io::{BufRead, BufReader};
use std::sync::Arc;

use saito_core::core::consensus::block::Block;
use saito_core::core::consensus::blockchain::Blockchain;
use saito_core::core::consensus::blockchain_sync_state::BlockchainSyncState;
use saito_core::core::consensus::peers::peer_collection::PeerCollection;
use saito_core::core::consensus::wallet::Wallet;
use saito_core::core::defs::SaitoHash;
use saito_verif_harness::node::key;
use saito_verif_harness::trace::{guarded, install_panic_recorder, Trace};
use serde::Deserialize;
use serde_json::{json, Value};
use tokio::sync::RwLock;

#[derive(Deserialize)]
struct Step {
    op: String,
    #[serde(default)]
    peer: u64,
    #[serde(default)]
    hash: u64,
    #[serde(default)]
    id: u64,
}
#[derive(Deserialize)]
struct Scenario {
    batch: usize,
    steps: Vec<Step>,
}

fn h(x: u64) -> SaitoHash {
    let mut a = [0u8; 32];
    a[0] = (x >> 8) as u8;
    a[1] = (x & 0xff) as u8;
    a
}
fn unh(a: &SaitoHash) -> u64 {
    ((a[0] as u64) << 8) | a[1] as u64
}

fn snapshot(s: &BlockchainSyncState) -> (Value, Value) {
    let q: Vec<Value> = s
        .verif_queues()
        .into_iter()
        .map(|(p, v)| {
            json!({"peer": p, "q": v.into_iter().map(|(id, hash, st, rc)| {
                let stn = ["Q", "F", "D", "X"][st as usize];
                json!({"id": id, "hash": unh(&hash), "st": stn, "rc": rc})}).collect::<Vec<_>>()})
        })
        .collect();
    let rp: Vec<Value> = s
        .verif_pending()
        .into_iter()
        .map(|(p, v)| json!({"peer": p, "rp": v.into_iter().map(|(id, hash)| json!([id, unh(&hash)])).collect::<Vec<_>>()}))
        .collect();
    (json!(q), json!(rp))
}

fn main() {
    let args: Vec<String> = std::env::args().collect();
    install_panic_recorder();
    let rt = tokio::runtime::Builder::new_current_thread().build().unwrap();
    let mut trace = Trace::create(&args[2]);
    let f = BufReader::new(std::fs::File::open(&args[1]).expect("scenarios"));
    let mut count = 0;
    for (k, line) in f.lines().enumerate() {
        let line = line.unwrap();
        if line.trim().is_empty() {
            continue;
        }
        let scn: Scenario = serde_json::from_str(&line).expect("scenario");
        let kk = key(1);
        let wallet = Arc::new(RwLock::new(Wallet::new(kk.private, kk.public)));
        let mut bc = Blockchain::new(wallet, 100, 0, 60);
        let peers = Arc::new(RwLock::new(PeerCollection::default()));
        let mut s = BlockchainSyncState::new(scn.batch);
        trace.emit(json!({"ev": "Reset", "scn": k, "batch": scn.batch,
                          "maxretries": BlockchainSyncState::verif_max_retries()}));
        for (i, st) in scn.steps.iter().enumerate() {
            let mut sel = json!([]);
            let r = guarded(|| match st.op.as_str() {
                "announce" => {
                    rt.block_on(s.add_entry(h(st.hash), st.id, st.peer, peers.clone()));
                }
                "build" => s.verif_build_peer_block_picture(&bc),
                "select" => {
                    let m = s.get_blocks_to_fetch_per_peer();
                    let mut v: Vec<(u64, Vec<Value>)> = m
                        .into_iter()
                        .map(|(p, l)| (p, l.into_iter().map(|(hash, id)| json!([unh(&hash), id])).collect()))
                        .collect();
                    v.sort_by_key(|(p, _)| *p);
                    sel = json!(v.into_iter().map(|(p, l)| json!({"peer": p, "sel": l})).collect::<Vec<_>>());
                }
                "fetched" => s.mark_as_fetched(h(st.hash)),
                "failed" => s.mark_as_failed(st.id, h(st.hash), st.peer),
                "onchain" => {
                    bc.blocks.insert(h(st.hash), Block::new());
                    s.remove_entry(h(st.hash));
                }
                "remove" => s.remove_entry(h(st.hash)),
                _ => {}
            });
            let res = match r {
                Ok(()) => "ok".to_string(),
                Err(p) => format!("Panic:{}", p),
            };
            let (q, rp) = snapshot(&s);
            let have: Vec<u64> = {
                let mut v: Vec<u64> = bc.blocks.keys().map(unh).collect();
                v.sort();
                v
            };
            trace.emit(json!({"ev": st.op, "scn": k, "i": i + 1, "peer": st.peer, "hash": st.hash, "id": st.id,
                "res": res, "sel": sel, "q": q, "rp": rp, "have": have,
                "inflight": s.get_fetching_block_count()}));
            if res != "ok" {
                break;
            }
        }
        count += 1;
    }
    trace.flush();
    eprintln!("sched: {} scenarios, {} events", count, trace.n);
}
