//! usage: ledger <scenarios.jsonl> <trace.ndjson> [--skip N] [--stall-ms N]
use std::io::{BufRead, BufReader};
use std::time::Duration;

use saito_verif_harness::ledger_run::{run_scenario, Scenario};
use saito_verif_harness::trace::{guarded, install_panic_recorder, Trace, Watchdog};

fn arg(args: &[String], name: &str, default: u64) -> u64 {
    args.iter()
        .position(|a| a == name)
        .and_then(|i| args.get(i + 1))
        .and_then(|v| v.parse().ok())
        .unwrap_or(default)
}

fn main() {
    let args: Vec<String> = std::env::args().collect();
    let skip = arg(&args, "--skip", 0) as usize;
    let stall_ms = arg(&args, "--stall-ms", 20000);
    install_panic_recorder();
    saito_verif_harness::trace::init_logger_from_env();
    let rt = tokio::runtime::Builder::new_current_thread()
        .enable_time()
        .build()
        .unwrap();
    let mut trace = Trace::create(&args[2]);
    let wd = Watchdog::start(Duration::from_millis(stall_ms), format!("{}.stall", &args[2]));
    wd.pause();
    let f = BufReader::new(std::fs::File::open(&args[1]).expect("scenarios"));
    let mut count = 0;
    for (k, line) in f.lines().enumerate() {
        let line = line.unwrap();
        if line.trim().is_empty() || k < skip {
            continue;
        }
        let scn: Scenario = serde_json::from_str(&line).unwrap_or_else(|e| panic!("scenario {}: {}", k, e));
        // a panic of the runner itself (not of a guarded call into the node) ends the scenario, not the run
        if let Err(p) = guarded(|| run_scenario(&rt, &scn, k, &mut trace, &wd)) {
            wd.pause();
            trace.emit(serde_json::json!({"ev": "Abort", "scn": k, "i": 0, "res": format!("Panic:{}", p)}));
        }
        count += 1;
        if count % 100 == 0 {
            trace.flush();
        }
    }
    trace.flush();
    eprintln!("ledger: {} scenarios, {} events", count, trace.n);
}
