//! Replays attacker schedules generated from MC_Handshake on the real Network / Peer objects (C17).
//! usage: handshake <scenarios.jsonl> <trace.ndjson>
use std::collections::{BTreeMap, HashMap};
use std::io::{BufRead, BufReader};
use std::sync::Arc;

use saito_core::core::consensus::peers::peer::PeerStatus;
use saito_core::core::consensus::peers::peer_collection::PeerCollection;
use saito_core::core::defs::{SaitoHash, SaitoSignature};
use saito_core::core::io::network::{Network, PeerDisconnectType};
use saito_core::core::msg::handshake::{HandshakeChallenge, HandshakeResponse};
use saito_core::core::msg::message::Message;
use saito_core::core::process::keep_time::Timer;
use saito_core::core::process::version::{read_pkg_version, Version};
use saito_core::core::util::configuration::PeerConfig;
use saito_core::core::util::crypto::{hash, sign};
use saito_verif_harness::node::{key, Key, Node};
use saito_verif_harness::sim::{IoOp, SimClock, SimConfig};
use saito_verif_harness::trace::{guarded, install_panic_recorder, Trace};
use serde::Deserialize;
use serde_json::{json, Value};
use tokio::sync::RwLock;

#[derive(Deserialize)]
struct Step {
    op: String,
    conn: u64,
    #[serde(default)]
    key: String,
    #[serde(default)]
    x: String,
    #[serde(default)]
    valid: bool,
    #[serde(default)]
    ver: String,
}
#[derive(Deserialize)]
struct Scenario {
    roles: Vec<String>,
    steps: Vec<Step>,
}

struct World {
    keys: BTreeMap<String, Key>,
    /// nonce name -> bytes
    nonces: HashMap<String, SaitoHash>,
    names: HashMap<SaitoHash, String>,
    /// signatures by A captured from its outbound messages: nonce name -> signature
    sig_a: HashMap<String, SaitoSignature>,
    next_a: usize,
}

impl World {
    fn name_challenge(&mut self, c: SaitoHash) -> String {
        if c == [0u8; 32] {
            return "zero".to_string();
        }
        if let Some(n) = self.names.get(&c) {
            return n.clone();
        }
        let n = format!("a{}", self.next_a);
        self.next_a += 1;
        self.nonces.insert(n.clone(), c);
        self.names.insert(c, n.clone());
        n
    }
    fn nonce(&self, n: &str) -> SaitoHash {
        *self.nonces.get(n).unwrap_or(&hash(n.as_bytes()))
    }
}

fn main() {
    let args: Vec<String> = std::env::args().collect();
    install_panic_recorder();
    saito_verif_harness::trace::init_logger_from_env();
    let rt = tokio::runtime::Builder::new_current_thread().build().unwrap();
    let mut trace = Trace::create(&args[2]);
    let f = BufReader::new(std::fs::File::open(&args[1]).expect("scenarios"));
    let mut count = 0;
    for (k, line) in f.lines().enumerate() {
        let line = line.unwrap();
        if line.trim().is_empty() {
            continue;
        }
        let scn: Scenario = serde_json::from_str(&line).expect("scenario");
        run(&rt, &scn, k, &mut trace);
        count += 1;
    }
    trace.flush();
    eprintln!("handshake: {} scenarios, {} events", count, trace.n);
}

fn run(rt: &tokio::runtime::Runtime, scn: &Scenario, k: usize, trace: &mut Trace) {
    let mut keys = BTreeMap::new();
    keys.insert("A".to_string(), key(1));
    keys.insert("B".to_string(), key(21));
    keys.insert("M".to_string(), key(22));
    let mut w = World {
        keys,
        nonces: HashMap::new(),
        names: HashMap::new(),
        sig_a: HashMap::new(),
        next_a: 1,
    };
    let m1 = hash(b"attacker-nonce-m1");
    w.nonces.insert("m1".into(), m1);
    w.names.insert(m1, "m1".into());
    w.nonces.insert("zero".into(), [0u8; 32]);

    // connection ids -> peer indices: outgoing ("ini") connections are static peers
    let nconn = scn.roles.len() as u64;
    let mut cfg = SimConfig::new(100, 100);
    let mut index_of: BTreeMap<u64, u64> = BTreeMap::new();
    let mut next_static = 1u64;
    for c in 1..=nconn {
        if scn.roles[(c - 1) as usize] == "ini" {
            cfg.peers.push(PeerConfig {
                host: format!("peer{}", c),
                port: 12100 + c as u16,
                protocol: "http".into(),
                synctype: "full".into(),
            });
            index_of.insert(c, next_static);
            next_static += 1;
        } else {
            index_of.insert(c, 100 + c);
        }
    }
    let node = Node::new(w.keys["A"], cfg);
    let peers = Arc::new(RwLock::new(PeerCollection::default()));
    let clock = SimClock::new(1_700_000_000_000);
    let mut network = Network::new(
        Box::new(node.io.clone()),
        peers.clone(),
        node.wallet.clone(),
        node.configs.clone(),
        Timer {
            time_reader: Arc::new(clock.clone()),
            hasten_multiplier: 1,
            start_time: 1_700_000_000_000,
        },
    );
    rt.block_on(network.initialize_static_peers(node.configs.clone()));
    trace.emit(json!({"ev": "Reset", "scn": k, "roles": scn.roles}));
    let mut existed = std::collections::BTreeSet::new();

    for (i, st) in scn.steps.iter().enumerate() {
        let idx = index_of[&st.conn];
        node.io.drain_journal();
        clock.advance(1000);
        let mut sent_valid = st.valid;
        let r = guarded(|| {
            rt.block_on(async {
                match st.op.as_str() {
                    "open" => network.handle_new_peer(idx, None).await,
                    "close" => {
                        network
                            .handle_peer_disconnect(idx, PeerDisconnectType::InternalDisconnect)
                            .await
                    }
                    "chal" => {
                        let ch = HandshakeChallenge {
                            challenge: w.nonce(&st.x),
                        };
                        network
                            .handle_handshake_challenge(idx, ch, node.wallet.clone(), node.configs.clone())
                            .await
                    }
                    "resp" => {
                        let kk = w.keys[&st.key];
                        let x = w.nonce(&st.x);
                        let mut sig: SaitoSignature = if st.key == "A" {
                            match w.sig_a.get(&st.x) {
                                Some(s) => *s,
                                None => {
                                    // the attacker does not hold this signature: the best it can do
                                    sent_valid = false;
                                    [7u8; 64]
                                }
                            }
                        } else {
                            sign(&x, &kk.private)
                        };
                        if !st.valid {
                            sig[9] ^= 0x21;
                            sent_valid = false;
                        }
                        let mine = read_pkg_version();
                        let ver = match st.ver.as_str() {
                            "unset" => Version::default(),
                            "incompatible" => Version::new(mine.major, mine.minor.wrapping_add(1), mine.patch),
                            _ => mine,
                        };
                        let resp = HandshakeResponse {
                            public_key: kk.public,
                            signature: sig,
                            is_lite: false,
                            block_fetch_url: "http://peer/".into(),
                            challenge: w.nonce("m1"),
                            services: vec![],
                            wallet_version: mine,
                            core_version: ver,
                        };
                        network
                            .handle_handshake_response(
                                idx,
                                resp,
                                node.wallet.clone(),
                                node.blockchain.clone(),
                                node.configs.clone(),
                            )
                            .await
                    }
                    _ => {}
                }
            })
        });
        let res = match r {
            Ok(()) => "ok".to_string(),
            Err(p) => format!("Panic:{}", p),
        };
        // what A sent out: challenges it issued and signatures it made
        let mut sent = vec![];
        for op in node.io.drain_journal() {
            match op {
                IoOp::Send { peer, buf } => {
                    let conn = index_of.iter().find(|(_, i)| **i == peer).map(|(c, _)| *c).unwrap_or(0);
                    if let Ok(m) = Message::deserialize(buf) {
                        match m {
                            Message::HandshakeChallenge(c) => {
                                let n = w.name_challenge(c.challenge);
                                sent.push(json!({"to": peer, "conn": conn, "msg": "chal", "x": n}));
                            }
                            Message::HandshakeResponse(r) => {
                                // which known nonce does the signature cover?
                                let mut over = "?".to_string();
                                for (n, bytes) in w.nonces.iter() {
                                    if saito_core::core::util::crypto::verify(bytes, &r.signature, &r.public_key) {
                                        over = n.clone();
                                    }
                                }
                                if over != "?" {
                                    w.sig_a.insert(over.clone(), r.signature);
                                }
                                let y = w.name_challenge(r.challenge);
                                sent.push(json!({"to": peer, "conn": conn, "msg": "resp", "over": over, "y": y}));
                            }
                            Message::BlockchainRequest(_) => sent.push(json!({"to": peer, "conn": conn, "msg": "chainreq"})),
                            _ => sent.push(json!({"to": peer, "conn": conn, "msg": "other"})),
                        }
                    }
                }
                IoOp::Disconnect { peer } => sent.push(json!({"to": peer, "conn": 0, "msg": "disconnect"})),
                _ => {}
            }
        }
        let st_json = rt.block_on(snapshot(&peers, &index_of, &w, &mut existed));
        trace.emit(json!({"ev": st.op, "scn": k, "i": i + 1, "conn": st.conn, "key": st.key, "x": st.x,
            "valid": sent_valid, "ver": st.ver, "res": res, "sent": sent, "st": st_json}));
        if res != "ok" {
            break;
        }
    }
}

async fn snapshot(
    peers: &Arc<RwLock<PeerCollection>>,
    index_of: &BTreeMap<u64, u64>,
    w: &World,
    existed: &mut std::collections::BTreeSet<u64>,
) -> Value {
    let p = peers.read().await;
    let keyname = |pk: &[u8; 33]| -> String {
        for (n, k) in w.keys.iter() {
            if &k.public == pk {
                return n.clone();
            }
        }
        "?".to_string()
    };
    let mut conns = vec![];
    for (c, idx) in index_of.iter() {
        match p.index_to_peers.get(idx) {
            None => {
                let s = if existed.contains(c) { "gone" } else { "none" };
                conns.push(json!({"conn": c, "status": s, "chal": "-", "key": "-"}))
            }
            Some(peer) => {
                existed.insert(*c);
                let status = match peer.peer_status {
                    PeerStatus::Connected => "connected",
                    PeerStatus::Connecting => "connecting",
                    PeerStatus::Disconnected(_, _) => {
                        if peer.disconnected_at == u64::MAX && peer.challenge_for_peer.is_none() && peer.public_key.is_none() {
                            "none"
                        } else {
                            "disconnected"
                        }
                    }
                };
                let chal = match peer.challenge_for_peer {
                    None => "-".to_string(),
                    Some(c) => w.names.get(&c).cloned().unwrap_or_else(|| "?".into()),
                };
                let key = peer.public_key.map(|k| keyname(&k)).unwrap_or_else(|| "-".into());
                conns.push(json!({"conn": c, "status": status, "chal": chal, "key": key}));
            }
        }
    }
    let mut by_key = vec![];
    for (pk, idx) in p.address_to_peers.iter() {
        let c = index_of.iter().find(|(_, i)| *i == idx).map(|(c, _)| *c).unwrap_or(0);
        by_key.push(json!({"key": keyname(pk), "conn": c}));
    }
    by_key.sort_by_key(|v| v["key"].as_str().unwrap().to_string());
    json!({"conns": conns, "bykey": by_key})
}
