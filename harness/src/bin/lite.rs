//! Lite-block projection on real blocks (C18): for every (n, keep pattern) scenario builds a real
//! signed block with n transactions, asks the real generate_lite_block for the key list that the
//! pattern encodes, sends the result over the wire and records what a light client would see.
//! usage: lite <scenarios.jsonl> <trace.ndjson>
use std::io::{BufRead, BufReader};

use saito_core::core::consensus::block::{Block, BlockType};
use saito_core::core::consensus::slip::Slip;
use saito_core::core::consensus::transaction::{Transaction, TransactionType};
use saito_core::core::defs::SaitoHash;
use saito_core::core::util::crypto::hash;
use saito_verif_harness::node::{key, Key};
use saito_verif_harness::trace::{guarded, install_panic_recorder, Trace};
use serde::Deserialize;
use serde_json::{json, Value};

#[derive(Deserialize)]
struct Scenario {
    n: usize,
    keep: Vec<bool>,
    #[serde(default)]
    ticket_at: Option<usize>,
    #[serde(default)]
    spend_from_key: bool,
    /// the listed key is touched only through zero-amount slips
    #[serde(default)]
    zero: bool,
    /// 0: [touch]; 1..: several keys in the list (two of them touched, alternating), in different orders
    #[serde(default)]
    keylist: usize,
}

fn keylist_for(scn: &Scenario, touch: &Key, touch2: &Key) -> Vec<[u8; 33]> {
    let (a, z) = (key(41).public, key(42).public);
    match scn.keylist {
        0 => vec![touch.public],
        1 => vec![a, touch.public, touch2.public],
        2 => vec![touch2.public, touch.public, a],
        3 => vec![z, touch.public, a, touch2.public],
        4 => vec![touch.public, touch2.public, touch.public],
        _ => {
            // descending byte order
            let mut v = vec![a, z, touch.public, touch2.public];
            v.sort();
            v.reverse();
            v
        }
    }
}

fn subtree_hash(leaves: &[SaitoHash]) -> SaitoHash {
    // reference: complete binary subtree over a power-of-two number of leaves
    if leaves.len() == 1 {
        return leaves[0];
    }
    let (l, r) = leaves.split_at(leaves.len() / 2);
    hash(&[subtree_hash(l), subtree_hash(r)].concat())
}

fn make_block(scn: &Scenario, payer: &Key, touch1: &Key, touch2: &Key, other: &Key, creator: &Key) -> Block {
    let mut block = Block::new();
    block.id = 7;
    block.timestamp = 1_700_000_000_000;
    block.previous_block_hash = hash(b"parent");
    block.creator = creator.public;
    block.burnfee = 50_000_000;
    block.difficulty = 3;
    // every header value distinct and non-zero, so that a field copied from the wrong place shows
    block.treasury = 11;
    block.graveyard = 13;
    block.total_fees = 17;
    block.avg_total_fees = 19;
    block.avg_fee_per_byte = 23;
    block.avg_nolan_rebroadcast_per_block = 29;
    block.previous_block_unpaid = 31;
    block.avg_total_fees_new = 37;
    block.avg_total_fees_atr = 41;
    block.avg_payout_routing = 43;
    block.avg_payout_mining = 47;
    block.avg_payout_treasury = 53;
    block.avg_payout_graveyard = 59;
    block.avg_payout_atr = 61;
    block.total_payout_routing = 67;
    block.total_payout_mining = 71;
    block.total_payout_treasury = 73;
    block.total_payout_graveyard = 79;
    block.total_payout_atr = 83;
    block.total_fees_new = 89;
    block.total_fees_atr = 97;
    block.fee_per_byte = 101;
    block.total_fees_cumulative = 103;
    for i in 0..scn.n {
        let touch = if scn.keylist > 0 && i % 2 == 1 { touch2 } else { touch1 };
        let mut tx = Transaction::default();
        tx.timestamp = 1_700_000_000_000 + i as u64;
        tx.data = format!("payload-{}", i).into_bytes();
        let mut input = Slip::default();
        // the listed key can be touched as recipient or as spender
        input.public_key = if scn.keep[i] && scn.spend_from_key { touch.public } else { payer.public };
        input.amount = 1000 + i as u64;
        if scn.zero && scn.keep[i] && scn.spend_from_key {
            input.amount = 0;
        }
        input.block_id = 3;
        input.tx_ordinal = i as u64;
        if scn.keep[i] && scn.spend_from_key && i % 2 == 0 {
            // several senders: the listed key is not the first input
            let mut first = Slip::default();
            first.public_key = payer.public;
            first.amount = 7 + i as u64;
            first.block_id = 2;
            first.tx_ordinal = i as u64;
            tx.add_from_slip(first);
        }
        tx.add_from_slip(input);
        let mut out = Slip::default();
        out.public_key = if scn.keep[i] && !scn.spend_from_key { touch.public } else { other.public };
        out.amount = 1000 + i as u64;
        if scn.zero && scn.keep[i] && !scn.spend_from_key {
            // a message addressed to the key: zero-amount output, the value goes elsewhere
            out.amount = 0;
            let mut val = Slip::default();
            val.public_key = other.public;
            val.amount = 1000 + i as u64;
            tx.add_to_slip(val);
        }
        tx.add_to_slip(out);
        if scn.ticket_at == Some(i) {
            tx.transaction_type = TransactionType::GoldenTicket;
            tx.data = vec![9u8; 97];
        }
        tx.sign(&payer.private);
        block.add_transaction(tx);
    }
    block.merkle_root = block.generate_merkle_root(false, false);
    block.generate().unwrap();
    block.sign(&creator.private);
    block.generate().unwrap();
    block
}

/// the whole header as it is serialised (every field)
fn header_tuple(b: &Block) -> Value {
    json!(hex::encode(b.serialize_for_net(BlockType::Header)))
}

fn main() {
    let args: Vec<String> = std::env::args().collect();
    install_panic_recorder();
    let mut trace = Trace::create(&args[2]);
    let (payer, touch, other, creator, touch2) = (key(31), key(32), key(33), key(34), key(35));
    let f = BufReader::new(std::fs::File::open(&args[1]).expect("scenarios"));
    let mut count = 0;
    trace.emit(json!({"ev": "Reset", "scn": 0}));
    for (k, line) in f.lines().enumerate() {
        let line = line.unwrap();
        if line.trim().is_empty() {
            continue;
        }
        let scn: Scenario = serde_json::from_str(&line).expect("scenario");
        let full = make_block(&scn, &payer, &touch, &touch2, &other, &creator);
        let leaves: Vec<SaitoHash> = full.transactions.iter().map(|t| t.hash_for_signature.unwrap()).collect();
        let r = guarded(|| {
            let lite = full.generate_lite_block(keylist_for(&scn, &touch, &touch2));
            // what the light client receives
            let bytes = lite.serialize_for_net(BlockType::Full);
            let mut wire = Block::deserialize_from_net(&bytes).expect("lite block decodes");
            let gen_ok = wire.generate().is_ok();
            (lite, wire, gen_ok)
        });
        match r {
            Err(p) => {
                trace.emit(json!({"ev": "Lite", "scn": k, "i": 1, "ntx": scn.n, "keep": scn.keep, "res": format!("Panic:{}", p),
                    "items": [], "flags": {}}));
            }
            Ok((lite, wire, gen_ok)) => {
                // items of the lite block as sent, and as received
                let describe = |b: &Block| -> (Vec<Value>, bool) {
                    let mut first = 1usize;
                    let mut items = vec![];
                    let mut kept_ok = true;
                    for t in b.transactions.iter() {
                        let len = if t.transaction_type == TransactionType::SPV { t.txs_replacements as usize } else { 1 };
                        let len = len.max(1);
                        let in_range = first + len - 1 <= leaves.len();
                        let expect = if in_range && len.is_power_of_two() {
                            Some(subtree_hash(&leaves[first - 1..first - 1 + len]))
                        } else {
                            None
                        };
                        let h_ok = t.hash_for_signature.is_some() && expect == t.hash_for_signature;
                        if t.transaction_type != TransactionType::SPV && in_range {
                            // a transaction kept in full must be the original one
                            let orig = &full.transactions[first - 1];
                            if orig.signature != t.signature || orig.from != t.from || orig.data != t.data
                                || orig.to.len() != t.to.len()
                            {
                                kept_ok = false;
                            }
                        }
                        items.push(json!({"k": if t.transaction_type == TransactionType::SPV { "sub" } else { "tx" },
                                          "first": first, "len": len, "hok": h_ok}));
                        first += len;
                    }
                    (items, kept_ok)
                };
                let (items_local, kept_local) = describe(&lite);
                let (items_wire, kept_wire) = describe(&wire);
                let root_local = lite.generate_merkle_root(false, false) == full.merkle_root;
                let root_wire = wire.generate_merkle_root(false, false) == full.merkle_root;
                trace.emit(json!({"ev": "Lite", "scn": k, "i": 1, "ntx": scn.n, "keep": scn.keep, "res": "ok",
                    "items": items_wire, "items_local": items_local,
                    "flags": {
                        "same_id": lite.id == full.id && wire.id == full.id,
                        "same_hash_local": lite.hash == full.hash,
                        "same_hash_wire": wire.hash == full.hash,
                        "same_sig": lite.signature == full.signature && wire.signature == full.signature,
                        "same_header": header_tuple(&lite) == header_tuple(&full) && header_tuple(&wire) == header_tuple(&full),
                        "sig_valid_wire": saito_core::core::util::crypto::verify_signature(&wire.pre_hash, &wire.signature, &wire.creator),
                        "root_local": root_local, "root_wire": root_wire,
                        "kept_local": kept_local, "kept_wire": kept_wire, "generate_ok": gen_ok,
                    }}));
            }
        }
        count += 1;
    }
    trace.flush();
    eprintln!("lite: {} scenarios, {} events", count, trace.n);
}
