//! C09: runs the real encoders / decoders on generated values and records, for each value, the
//! field tree (taken from the struct fields, not from the encoder), the bytes the real encoder
//! produced, the field tree of the re-decoded value, the predicted size and identity flags.
//! C10: feeds mutated encodings (every truncation, boundary values in count fields, random
//! strings) to every decoder under catch_unwind with an allocation meter.
//!
//! usage: wire codec <seed> <count> <trace.ndjson>
//!        wire decode <seed> <count> <trace.ndjson>
use std::alloc::{GlobalAlloc, Layout, System};
use std::sync::atomic::{AtomicUsize, Ordering};

use rand::rngs::StdRng;
use rand::{Rng, SeedableRng};
use saito_core::core::consensus::block::{Block, BlockType};
use saito_core::core::consensus::golden_ticket::GoldenTicket;
use saito_core::core::consensus::hop::Hop;
use saito_core::core::consensus::peers::peer_service::PeerService;
use saito_core::core::consensus::slip::{Slip, SlipType};
use saito_core::core::consensus::transaction::{Transaction, TransactionType};
use saito_core::core::consensus::wallet::Wallet;
use saito_core::core::msg::api_message::ApiMessage;
use saito_core::core::msg::block_request::BlockchainRequest;
use saito_core::core::msg::ghost_chain_sync::GhostChainSync;
use saito_core::core::msg::handshake::{HandshakeChallenge, HandshakeResponse};
use saito_core::core::msg::message::Message;
use saito_core::core::process::version::Version;
use saito_core::core::util::crypto::{hash, verify_signature};
use saito_core::core::util::serialize::Serialize;
use saito_verif_harness::node::key;
use saito_verif_harness::trace::{guarded, install_panic_recorder, Trace};
use serde_json::{json, Value};

// ---- allocation meter ------------------------------------------------------------------------
struct Meter;
static CUR: AtomicUsize = AtomicUsize::new(0);
static PEAK: AtomicUsize = AtomicUsize::new(0);
/// child processes that run one risky input have a hard cap: beyond it the process aborts instead of
/// taking the machine down
static CAP_ON: std::sync::atomic::AtomicBool = std::sync::atomic::AtomicBool::new(false);
unsafe impl GlobalAlloc for Meter {
    unsafe fn alloc(&self, l: Layout) -> *mut u8 {
        if CAP_ON.load(Ordering::Relaxed) && (l.size() > (1 << 30) || CUR.load(Ordering::Relaxed) > (3usize << 30)) {
            std::process::abort();
        }
        let c = CUR.fetch_add(l.size(), Ordering::Relaxed) + l.size();
        PEAK.fetch_max(c, Ordering::Relaxed);
        System.alloc(l)
    }
    unsafe fn dealloc(&self, p: *mut u8, l: Layout) {
        CUR.fetch_sub(l.size(), Ordering::Relaxed);
        System.dealloc(p, l)
    }
}
#[global_allocator]
static GLOBAL: Meter = Meter;
fn meter_start() -> usize {
    let c = CUR.load(Ordering::Relaxed);
    PEAK.store(c, Ordering::Relaxed);
    c
}
fn meter_peak_over(base: usize) -> usize {
    PEAK.load(Ordering::Relaxed).saturating_sub(base)
}

// ---- value generation ------------------------------------------------------------------------
fn edge_u64(r: &mut StdRng) -> u64 {
    match r.gen_range(0..10) {
        0 => 0,
        1 => 1,
        2 => u64::MAX,
        3 => 1 << 63,
        4 => (1 << 32) - 1,
        5 => (1 << 32) + 1,
        6 => 255,
        7 => 256,
        _ => r.gen(),
    }
}
fn bytes<const N: usize>(r: &mut StdRng) -> [u8; N] {
    let mut a = [0u8; N];
    for b in a.iter_mut() {
        *b = r.gen_range(1..=255);
    }
    a
}
fn gen_slip(r: &mut StdRng) -> Slip {
    let mut s = Slip::default();
    s.public_key = bytes::<33>(r);
    s.amount = edge_u64(r);
    s.block_id = edge_u64(r);
    s.tx_ordinal = edge_u64(r);
    s.slip_index = r.gen();
    s.slip_type = [SlipType::Normal, SlipType::ATR, SlipType::VipInput, SlipType::VipOutput, SlipType::MinerInput,
        SlipType::MinerOutput, SlipType::RouterInput, SlipType::RouterOutput, SlipType::BlockStake, SlipType::Bound][r.gen_range(0..10)];
    s
}
fn gen_hop(r: &mut StdRng) -> Hop {
    Hop { from: bytes::<33>(r), to: bytes::<33>(r), sig: bytes::<64>(r) }
}
fn gen_tx(r: &mut StdRng, big: bool) -> Transaction {
    let mut t = Transaction::default();
    t.timestamp = edge_u64(r);
    let nin = *[0usize, 1, 2, 3, if big { 254 } else { 4 }, if big { 255 } else { 1 }].get(r.gen_range(0..6)).unwrap();
    let nout = *[0usize, 1, 2, 3, if big { 255 } else { 2 }, 1].get(r.gen_range(0..6)).unwrap();
    for _ in 0..nin { t.from.push(gen_slip(r)); }
    for i in 0..nout {
        // as in every transaction produced by Transaction::sign: an output's index is its position
        let mut s = gen_slip(r);
        s.slip_index = i as u8;
        t.to.push(s);
    }
    let dl = *[0usize, 1, 2, 97, 300, if big { 65536 } else { 5 }].get(r.gen_range(0..6)).unwrap();
    t.data = (0..dl).map(|_| r.gen()).collect();
    t.transaction_type = [TransactionType::Normal, TransactionType::Fee, TransactionType::GoldenTicket, TransactionType::ATR,
        TransactionType::Vip, TransactionType::SPV, TransactionType::Issuance, TransactionType::BlockStake, TransactionType::Bound][r.gen_range(0..9)];
    if t.transaction_type == TransactionType::GoldenTicket {
        t.data = (0..97).map(|_| r.gen()).collect(); // the payload of a ticket has a fixed size
    }
    t.txs_replacements = if r.gen_bool(0.7) { 1 } else { r.gen() };
    t.signature = bytes::<64>(r);
    let nh = r.gen_range(0..(if big { 9 } else { 3 }));
    for _ in 0..nh { t.path.push(gen_hop(r)); }
    t
}
fn gen_block(r: &mut StdRng) -> Block {
    let mut b = Block::new();
    b.id = edge_u64(r).max(1);
    b.timestamp = edge_u64(r);
    b.previous_block_hash = bytes::<32>(r);
    b.creator = bytes::<33>(r);
    b.merkle_root = bytes::<32>(r);
    b.signature = bytes::<64>(r);
    let vals: Vec<u64> = (0..25).map(|i| 1000 + i + (edge_u64(r) & 0xffff_ffff_0000)).collect();
    b.graveyard = vals[0]; b.treasury = vals[1]; b.burnfee = vals[2]; b.difficulty = vals[3];
    b.avg_total_fees = vals[4]; b.avg_fee_per_byte = vals[5]; b.avg_nolan_rebroadcast_per_block = vals[6];
    b.previous_block_unpaid = vals[7]; b.avg_total_fees_new = vals[8]; b.avg_total_fees_atr = vals[9];
    b.avg_payout_routing = vals[10]; b.avg_payout_mining = vals[11]; b.avg_payout_treasury = vals[12];
    b.avg_payout_graveyard = vals[13]; b.avg_payout_atr = vals[14]; b.total_payout_routing = vals[15];
    b.total_payout_mining = vals[16]; b.total_payout_treasury = vals[17]; b.total_payout_graveyard = vals[18];
    b.total_payout_atr = vals[19]; b.total_fees = vals[20]; b.total_fees_new = vals[21]; b.total_fees_atr = vals[22];
    b.fee_per_byte = vals[23]; b.total_fees_cumulative = vals[24];
    for _ in 0..r.gen_range(0..4) { b.transactions.push(gen_tx(r, false)); }
    b
}

// ---- field trees (from struct fields) ----------------------------------------------------------
fn hx(b: &[u8]) -> String { hex::encode(b) }
fn slip_tree(s: &Slip) -> Value {
    json!({"pk": hx(&s.public_key), "amount": hx(&s.amount.to_be_bytes()), "block_id": hx(&s.block_id.to_be_bytes()),
           "tx_ordinal": hx(&s.tx_ordinal.to_be_bytes()), "slip_index": hx(&[s.slip_index]), "slip_type": hx(&[s.slip_type as u8])})
}
fn hop_tree(h: &Hop) -> Value { json!({"from": hx(&h.from), "to": hx(&h.to), "sig": hx(&h.sig)}) }
fn tx_tree(t: &Transaction) -> Value {
    json!({"sig": hx(&t.signature), "ts": hx(&t.timestamp.to_be_bytes()), "repl": hx(&t.txs_replacements.to_be_bytes()),
           "type": hx(&[t.transaction_type as u8]), "from": t.from.iter().map(slip_tree).collect::<Vec<_>>(),
           "to": t.to.iter().map(slip_tree).collect::<Vec<_>>(), "data": hx(&t.data),
           "path": t.path.iter().map(hop_tree).collect::<Vec<_>>()})
}
fn block_tree(b: &Block, btype: &str) -> Value {
    let h = |x: u64| hx(&x.to_be_bytes());
    json!({"btype": btype, "id": h(b.id), "ts": h(b.timestamp), "prev": hx(&b.previous_block_hash), "creator": hx(&b.creator),
           "merkle": hx(&b.merkle_root), "sig": hx(&b.signature),
           "hdr": [h(b.graveyard), h(b.treasury), h(b.burnfee), h(b.difficulty), h(b.avg_total_fees), h(b.avg_fee_per_byte),
                   h(b.avg_nolan_rebroadcast_per_block), h(b.previous_block_unpaid), h(b.avg_total_fees), h(b.avg_total_fees_new),
                   h(b.avg_total_fees_atr), h(b.avg_payout_routing), h(b.avg_payout_mining), h(b.avg_payout_treasury),
                   h(b.avg_payout_graveyard), h(b.avg_payout_atr), h(b.total_payout_routing), h(b.total_payout_mining),
                   h(b.total_payout_treasury), h(b.total_payout_graveyard), h(b.total_payout_atr), h(b.total_fees),
                   h(b.total_fees_new), h(b.total_fees_atr), h(b.fee_per_byte), h(b.total_fees_cumulative)],
           "txs": if btype == "header" { vec![] } else { b.transactions.iter().map(tx_tree).collect::<Vec<_>>() }})
}
fn resp_tree(r: &HandshakeResponse) -> Value {
    json!({"core": hx(&r.core_version.serialize()), "wallet": hx(&r.wallet_version.serialize()), "pk": hx(&r.public_key),
           "sig": hx(&r.signature), "challenge": hx(&r.challenge), "lite": hx(&[r.is_lite as u8]), "url": hx(r.block_fetch_url.as_bytes()),
           "services": hx(&PeerService::serialize_services(&r.services))})
}
fn ghost_tree(g: &GhostChainSync) -> Value {
    json!({"start": hx(&g.start), "prehashes": g.prehashes.iter().map(|h| hx(h)).collect::<Vec<_>>(),
           "prev": g.previous_block_hashes.iter().map(|h| hx(h)).collect::<Vec<_>>(),
           "ids": g.block_ids.iter().map(|x| hx(&x.to_be_bytes())).collect::<Vec<_>>(),
           "ts": g.block_ts.iter().map(|x| hx(&x.to_be_bytes())).collect::<Vec<_>>(),
           "txs": g.txs.iter().map(|x| hx(&[*x as u8])).collect::<Vec<_>>(),
           "gts": g.gts.iter().map(|x| hx(&[*x as u8])).collect::<Vec<_>>()})
}

fn emit_codec(trace: &mut Trace, k: usize, fmt: &str, v: Value, hexs: String, dec: Value, predicted: i64, flags: Value) {
    let dec_ok = dec != json!("ERR");
    let same = dec == v;
    trace.emit(json!({"ev": "Codec", "scn": k, "i": 1, "fmt": fmt, "v": v, "hex": hexs, "dec_ok": dec_ok, "dec_same": same,
                      "dec": if dec_ok { dec } else { json!({}) }, "predicted": predicted, "flags": flags, "res": "ok"}));
}

fn codec_mode(seed: u64, count: usize, out: &str) {
    let mut r = StdRng::seed_from_u64(seed);
    let mut trace = Trace::create(out);
    trace.emit(json!({"ev": "Reset", "scn": 0}));
    let signer = key(41);
    let rt = tokio::runtime::Builder::new_current_thread().build().unwrap();
    for k in 0..count {
        let which = k % 16;
        let res = guarded(|| match which {
            14 => {
                // a block through the disk: written by Storage, read back, and reloaded into a pruned copy
                let mut blk = gen_block(&mut r);
                blk.creator = signer.public;
                if k % 32 == 14 {
                    let mut gt = Transaction::default();
                    gt.transaction_type = TransactionType::GoldenTicket;
                    gt.data = bytes::<97>(&mut r).to_vec();
                    gt.timestamp = 17;
                    blk.transactions.insert(0, gt);
                }
                for t in blk.transactions.iter_mut() {
                    if t.from.is_empty() { t.from.push(gen_slip(&mut r)); }
                    t.from[0].public_key = signer.public;
                    t.sign(&signer.private);
                }
                blk.merkle_root = [0; 32];
                let _ = blk.generate();
                blk.sign(&signer.private);
                let _ = blk.generate();
                let io = saito_verif_harness::sim::SimIo::new();
                let mut storage = saito_core::core::io::storage::Storage::new(Box::new(io.clone()));
                let name = rt.block_on(storage.write_block_to_disk(&blk));
                let file = io.files().iter().find(|(k, _)| k.ends_with(&name) || name.ends_with(k.as_str())).map(|(_, v)| v.clone()).unwrap_or_default();
                let loaded = rt.block_on(storage.load_block_from_disk(&name));
                let mut pruned = blk.clone();
                rt.block_on(pruned.downgrade_block_to_block_type(BlockType::Pruned, false));
                let pruned_ok = pruned.transactions.is_empty();
                let up = rt.block_on(pruned.upgrade_block_to_block_type(BlockType::Full, &storage, false));
                let tx_same = pruned.transactions.len() == blk.transactions.len()
                    && pruned.transactions.iter().zip(blk.transactions.iter()).all(|(a, b)| {
                        a.hash_for_signature == b.hash_for_signature && a.signature == b.signature
                            && a.total_fees == b.total_fees && a.total_work_for_me == b.total_work_for_me
                            && a.from.iter().map(|s| s.get_utxoset_key()).collect::<Vec<_>>() == b.from.iter().map(|s| s.get_utxoset_key()).collect::<Vec<_>>()
                            && a.to.iter().map(|s| s.get_utxoset_key()).collect::<Vec<_>>() == b.to.iter().map(|s| s.get_utxoset_key()).collect::<Vec<_>>()
                    });
                let derived_same = up && pruned_ok && tx_same && pruned.hash == blk.hash && pruned.has_golden_ticket == blk.has_golden_ticket
                    && pruned.has_fee_transaction == blk.has_fee_transaction && pruned.has_issuance_transaction == blk.has_issuance_transaction
                    && pruned.total_work == blk.total_work && pruned.total_fees == blk.total_fees
                    && pruned.serialize_for_net(BlockType::Full) == blk.serialize_for_net(BlockType::Full);
                let mut flags = json!({"reenc": false, "hash_same": false, "derived_same": derived_same});
                if let Ok(lb) = loaded.as_ref() {
                    flags["reenc"] = json!(lb.serialize_for_net(BlockType::Full) == file);
                    let mut l2 = Block::deserialize_from_net(&file).unwrap_or_else(|_| Block::new());
                    let _ = l2.generate();
                    flags["hash_same"] = json!(l2.hash == blk.hash && (lb.hash == blk.hash || lb.hash == [0; 32]));
                }
                emit_codec(&mut trace, k, "block", block_tree(&blk, "full"), hx(&file),
                    loaded.as_ref().map(|x| block_tree(x, "full")).unwrap_or(json!("ERR")), file.len() as i64, flags);
            }
            15 => {
                // a lite block over the wire: same header, same hash, signature still the creator's
                let mut blk = gen_block(&mut r);
                blk.creator = signer.public;
                for t in blk.transactions.iter_mut() {
                    if t.from.is_empty() { t.from.push(gen_slip(&mut r)); }
                    // a full block carries no placeholders
                    if t.transaction_type == TransactionType::SPV { t.transaction_type = TransactionType::Normal; }
                    t.txs_replacements = 1;
                    t.sign(&signer.private);
                }
                blk.merkle_root = [0; 32];
                let _ = blk.generate();
                blk.sign(&signer.private);
                let _ = blk.generate();
                let keys = if blk.transactions.is_empty() || k % 3 == 0 { vec![bytes::<33>(&mut r)] } else { vec![blk.transactions[0].from[0].public_key] };
                let lite = blk.generate_lite_block(keys);
                let b = lite.serialize_for_net(BlockType::Full);
                let d = Block::deserialize_from_net(&b);
                let mut flags = json!({"reenc": false, "hash_same": false, "sig_same": false, "header_same": false});
                if let Ok(db) = d.as_ref() {
                    let mut db2 = Block::deserialize_from_net(&b).unwrap();
                    let _ = db2.generate();
                    flags = json!({"reenc": db.serialize_for_net(BlockType::Full) == b, "hash_same": db2.hash == blk.hash,
                                   "sig_same": verify_signature(&db2.pre_hash, &db2.signature, &db2.creator),
                                   "header_same": db2.serialize_for_net(BlockType::Header) == blk.serialize_for_net(BlockType::Header)});
                }
                emit_codec(&mut trace, k, "block", block_tree(&lite, "full"), hx(&b),
                    d.as_ref().map(|x| block_tree(x, "full")).unwrap_or(json!("ERR")), b.len() as i64, flags);
            }
            0 => {
                let s = gen_slip(&mut r);
                let b = s.serialize_for_net();
                let d = Slip::deserialize_from_net(&b);
                emit_codec(&mut trace, k, "slip", slip_tree(&s), hx(&b), d.as_ref().map(slip_tree).unwrap_or(json!("ERR")), b.len() as i64,
                    json!({"reenc": d.as_ref().map(|x| x.serialize_for_net() == b).unwrap_or(false)}));
            }
            1 => {
                let h = gen_hop(&mut r);
                let b = h.serialize_for_net();
                let d = Hop::deserialize_from_net(&b);
                emit_codec(&mut trace, k, "hop", hop_tree(&h), hx(&b), d.as_ref().map(hop_tree).unwrap_or(json!("ERR")), b.len() as i64,
                    json!({"reenc": d.as_ref().map(|x| x.serialize_for_net() == b).unwrap_or(false)}));
            }
            2 | 3 => {
                // transactions; half of them properly signed so that identity can be compared
                let mut t = gen_tx(&mut r, which == 3 && k % 4 == 3);
                let signed = k % 2 == 0;
                if signed {
                    if t.from.is_empty() { t.from.push(gen_slip(&mut r)); }
                    t.from[0].public_key = signer.public;
                    t.sign(&signer.private);
                }
                t.generate(&signer.public, 0, 0);
                let b = t.serialize_for_net();
                let d = Transaction::deserialize_from_net(&b);
                let mut flags = json!({"reenc": false, "hash_same": false, "sig_same": false});
                if let Ok(mut dt) = d.as_ref().map(|x| x.clone()) {
                    dt.generate(&signer.public, 0, 0);
                    let sig_before = verify_signature(&t.hash_for_signature.unwrap(), &t.signature, &signer.public);
                    let sig_after = verify_signature(&dt.hash_for_signature.unwrap(), &dt.signature, &signer.public);
                    flags = json!({"reenc": dt.serialize_for_net() == b,
                                   "hash_same": t.transaction_type == TransactionType::SPV || dt.hash_for_signature == t.hash_for_signature,
                                   "sig_same": sig_before == sig_after, "signed": signed && sig_before});
                }
                emit_codec(&mut trace, k, "tx", tx_tree(&t), hx(&b), d.as_ref().map(tx_tree).unwrap_or(json!("ERR")),
                    t.get_serialized_size() as i64, flags);
            }
            4 | 5 => {
                let mut blk = gen_block(&mut r);
                blk.creator = signer.public;
                let _ = blk.generate();
                blk.sign(&signer.private);
                let _ = blk.generate();
                let bt = if which == 5 { BlockType::Header } else { BlockType::Full };
                let btn = if which == 5 { "header" } else { "full" };
                let b = blk.serialize_for_net(bt);
                let d = Block::deserialize_from_net(&b);
                let mut flags = json!({"reenc": false, "hash_same": false, "sig_same": false});
                if let Ok(db) = d.as_ref() {
                    let mut db2 = Block::deserialize_from_net(&b).unwrap();
                    let _ = db2.generate();
                    // a header-only block keeps the merkle root of the header and therefore its hash
                    flags = json!({"reenc": db.serialize_for_net(bt) == b, "hash_same": db2.hash == blk.hash,
                                   "sig_same": verify_signature(&db2.pre_hash, &db2.signature, &db2.creator)
                                               == verify_signature(&blk.pre_hash, &blk.signature, &blk.creator)});
                }
                emit_codec(&mut trace, k, "block", block_tree(&blk, btn), hx(&b),
                    d.as_ref().map(|x| block_tree(x, btn)).unwrap_or(json!("ERR")), b.len() as i64, flags);
            }
            6 => {
                let c = HandshakeChallenge { challenge: bytes::<32>(&mut r) };
                let m = Message::HandshakeChallenge(HandshakeChallenge { challenge: c.challenge });
                let b = m.serialize();
                let d = Message::deserialize(b.clone());
                let dec = match d { Ok(Message::HandshakeChallenge(x)) => json!({"tag": 1, "inner": "challenge", "body": {"challenge": hx(&x.challenge)}}), _ => json!("ERR") };
                emit_codec(&mut trace, k, "msg", json!({"tag": 1, "inner": "challenge", "body": {"challenge": hx(&c.challenge)}}), hx(&b), dec, b.len() as i64, json!({"reenc": true}));
            }
            7 => {
                let url = ["", "http://a.b:1/", "https://some.host.example:12101/block"][r.gen_range(0..3)].to_string();
                let services = if r.gen_bool(0.5) { vec![] } else {
                    vec![PeerService { service: "svc".into(), domain: "dom".into(), name: "nm".into() },
                         PeerService { service: "s2".into(), domain: "".into(), name: "n2".into() }] };
                let rp = HandshakeResponse { public_key: bytes::<33>(&mut r), signature: bytes::<64>(&mut r), is_lite: r.gen(),
                    block_fetch_url: url, challenge: bytes::<32>(&mut r), services,
                    wallet_version: Version::new(r.gen(), r.gen(), r.gen()), core_version: Version::new(r.gen_range(1..=255), r.gen(), r.gen()) };
                let tree = resp_tree(&rp);
                let m = Message::HandshakeResponse(rp);
                let b = m.serialize();
                let d = Message::deserialize(b.clone());
                let dec = match d { Ok(Message::HandshakeResponse(x)) => json!({"tag": 2, "inner": "response", "body": resp_tree(&x)}), _ => json!("ERR") };
                emit_codec(&mut trace, k, "msg", json!({"tag": 2, "inner": "response", "body": tree}), hx(&b), dec, b.len() as i64, json!({"reenc": true}));
            }
            8 => {
                let (id, h1, h2) = (edge_u64(&mut r), bytes::<32>(&mut r), bytes::<32>(&mut r));
                let tag = if r.gen_bool(0.5) { 11 } else { 6 };
                let (m, tree) = if tag == 11 {
                    (Message::GhostChainRequest(id, h1, h2), json!({"tag": 11, "inner": "chainreq", "body": {"id": hx(&id.to_be_bytes()), "hash": hx(&h1), "fork": hx(&h2)}}))
                } else {
                    (Message::BlockHeaderHash(h1, id), json!({"tag": 6, "inner": "headerhash", "body": {"hash": hx(&h1), "id": hx(&id.to_be_bytes())}}))
                };
                let b = m.serialize();
                let dec = match Message::deserialize(b.clone()) {
                    Ok(Message::GhostChainRequest(i, a, f)) => json!({"tag": 11, "inner": "chainreq", "body": {"id": hx(&i.to_be_bytes()), "hash": hx(&a), "fork": hx(&f)}}),
                    Ok(Message::BlockHeaderHash(a, i)) => json!({"tag": 6, "inner": "headerhash", "body": {"hash": hx(&a), "id": hx(&i.to_be_bytes())}}),
                    _ => json!("ERR") };
                emit_codec(&mut trace, k, "msg", tree, hx(&b), dec, b.len() as i64, json!({"reenc": true}));
            }
            9 => {
                // blockchain request via its own codec (fields are crate-private: go through bytes of a message)
                let (id, h1, h2) = (edge_u64(&mut r), bytes::<32>(&mut r), bytes::<32>(&mut r));
                let raw = [id.to_be_bytes().to_vec(), h1.to_vec(), h2.to_vec()].concat();
                let d = BlockchainRequest::deserialize(&raw);
                let b = d.as_ref().map(|x| Message::BlockchainRequest(BlockchainRequest::deserialize(&x.serialize()).unwrap()).serialize()).unwrap_or_default();
                let tree = json!({"tag": 5, "inner": "chainreq", "body": {"id": hx(&id.to_be_bytes()), "hash": hx(&h1), "fork": hx(&h2)}});
                let dec = match Message::deserialize(b.clone()) { Ok(Message::BlockchainRequest(x)) => {
                        let s = x.serialize();
                        json!({"tag": 5, "inner": "chainreq", "body": {"id": hx(&s[0..8]), "hash": hx(&s[8..40]), "fork": hx(&s[40..72])}}) }
                    _ => json!("ERR") };
                emit_codec(&mut trace, k, "msg", tree, hx(&b), dec, b.len() as i64, json!({"reenc": true}));
            }
            10 => {
                let n = [0usize, 1, 2, 5, 40][r.gen_range(0..5)];
                let g = GhostChainSync { start: bytes::<32>(&mut r), prehashes: (0..n).map(|_| bytes::<32>(&mut r)).collect(),
                    previous_block_hashes: (0..n).map(|_| bytes::<32>(&mut r)).collect(), block_ids: (0..n).map(|_| edge_u64(&mut r)).collect(),
                    block_ts: (0..n).map(|_| edge_u64(&mut r)).collect(), txs: (0..n).map(|_| r.gen()).collect(), gts: (0..n).map(|_| r.gen()).collect() };
                let tree = ghost_tree(&g);
                let b = Message::GhostChain(g).serialize();
                let dec = match Message::deserialize(b.clone()) { Ok(Message::GhostChain(x)) => json!({"tag": 10, "inner": "ghost", "body": ghost_tree(&x)}), _ => json!("ERR") };
                emit_codec(&mut trace, k, "msg", json!({"tag": 10, "inner": "ghost", "body": tree}), hx(&b), dec, b.len() as i64, json!({"reenc": true}));
            }
            11 => {
                let dl = [0usize, 1, 7, 300][r.gen_range(0..4)];
                let a = ApiMessage { msg_index: r.gen(), data: (0..dl).map(|_| r.gen()).collect() };
                let tag = [12u8, 13, 14][r.gen_range(0..3)];
                let tree = json!({"tag": tag, "inner": "api", "body": {"index": hx(&a.msg_index.to_be_bytes()), "data": hx(&a.data)}});
                let m = match tag { 12 => Message::ApplicationMessage(a), 13 => Message::Result(a), _ => Message::Error(a) };
                let b = m.serialize();
                let dec = match Message::deserialize(b.clone()) {
                    Ok(Message::ApplicationMessage(x)) => json!({"tag": 12, "inner": "api", "body": {"index": hx(&x.msg_index.to_be_bytes()), "data": hx(&x.data)}}),
                    Ok(Message::Result(x)) => json!({"tag": 13, "inner": "api", "body": {"index": hx(&x.msg_index.to_be_bytes()), "data": hx(&x.data)}}),
                    Ok(Message::Error(x)) => json!({"tag": 14, "inner": "api", "body": {"index": hx(&x.msg_index.to_be_bytes()), "data": hx(&x.data)}}),
                    _ => json!("ERR") };
                emit_codec(&mut trace, k, "msg", tree, hx(&b), dec, b.len() as i64, json!({"reenc": true}));
            }
            12 => {
                let n = [0usize, 1, 3, 20][r.gen_range(0..4)];
                let keys: Vec<[u8; 33]> = (0..n).map(|_| bytes::<33>(&mut r)).collect();
                let tree = json!({"tag": 15, "inner": "keylist", "body": {"keys": keys.iter().map(|k| hx(k)).collect::<Vec<_>>()}});
                let b = Message::KeyListUpdate(keys).serialize();
                let dec = match Message::deserialize(b.clone()) { Ok(Message::KeyListUpdate(x)) => json!({"tag": 15, "inner": "keylist", "body": {"keys": x.iter().map(|k| hx(k)).collect::<Vec<_>>()}}), _ => json!("ERR") };
                emit_codec(&mut trace, k, "msg", tree, hx(&b), dec, b.len() as i64, json!({"reenc": true}));
            }
            _ => {
                // block / transaction inside a peer message, ping, services, golden ticket, version
                match k % 5 {
                    0 => {
                        let t = { let mut t = gen_tx(&mut r, false); t.generate(&signer.public, 0, 0); t };
                        let tree = json!({"tag": 4, "inner": "tx", "body": tx_tree(&t)});
                        let b = Message::Transaction(t).serialize();
                        let dec = match Message::deserialize(b.clone()) { Ok(Message::Transaction(x)) => json!({"tag": 4, "inner": "tx", "body": tx_tree(&x)}), _ => json!("ERR") };
                        emit_codec(&mut trace, k, "msg", tree, hx(&b), dec, b.len() as i64, json!({"reenc": true}));
                    }
                    1 => {
                        let blk = gen_block(&mut r);
                        let tree = json!({"tag": 3, "inner": "block", "body": block_tree(&blk, "full")});
                        let b = Message::Block(blk).serialize();
                        let dec = match Message::deserialize(b.clone()) { Ok(Message::Block(x)) => json!({"tag": 3, "inner": "block", "body": block_tree(&x, "full")}), _ => json!("ERR") };
                        emit_codec(&mut trace, k, "msg", tree, hx(&b), dec, b.len() as i64, json!({"reenc": true}));
                    }
                    2 => {
                        let tag = if r.gen_bool(0.5) { 7 } else { 8 };
                        let m = if tag == 7 { Message::Ping() } else { Message::SPVChain() };
                        let b = m.serialize();
                        let dec = match Message::deserialize(b.clone()) { Ok(Message::Ping()) => json!({"tag": 7, "inner": "empty", "body": {}}), Ok(Message::SPVChain()) => json!({"tag": 8, "inner": "empty", "body": {}}), _ => json!("ERR") };
                        emit_codec(&mut trace, k, "msg", json!({"tag": tag, "inner": "empty", "body": {}}), hx(&b), dec, b.len() as i64, json!({"reenc": true}));
                    }
                    3 => {
                        let gt = GoldenTicket::new(bytes::<32>(&mut r), bytes::<32>(&mut r), bytes::<33>(&mut r));
                        let b = gt.serialize_for_net();
                        let d = GoldenTicket::deserialize_from_net(&b);
                        let b2 = d.serialize_for_net();
                        emit_codec(&mut trace, k, "ticket", json!({"target": hx(&b[0..32]), "random": hx(&b[32..64]), "pk": hx(&b[64..97])}), hx(&b),
                            json!({"target": hx(&b2[0..32]), "random": hx(&b2[32..64]), "pk": hx(&b2[64..97])}), 97, json!({"reenc": b2 == b}));
                    }
                    _ => {
                        let v = Version::new(r.gen(), r.gen(), r.gen());
                        let b = v.serialize();
                        let d = Version::deserialize(&b);
                        let t = |x: &Version| json!({"major": hx(&[x.major]), "minor": hx(&[x.minor]), "patch": hx(&x.patch.to_be_bytes())});
                        emit_codec(&mut trace, k, "version", t(&v), hx(&b), d.as_ref().map(t).unwrap_or(json!("ERR")), 4, json!({"reenc": true}));
                    }
                }
            }
        });
        if let Err(p) = res {
            trace.emit(json!({"ev": "Codec", "scn": k, "i": 1, "fmt": "?", "v": {}, "hex": "", "dec_ok": false, "dec_same": false, "dec": {}, "predicted": -1, "flags": {}, "res": format!("Panic:{}", p)}));
        }
    }
    trace.flush();
    eprintln!("wire codec: {} values, {} events", count, trace.n);
}

// ---- C10 ---------------------------------------------------------------------------------------
fn decoders() -> Vec<(&'static str, Box<dyn Fn(&[u8])>)> {
    vec![
        ("message", Box::new(|b: &[u8]| { let _ = Message::deserialize(b.to_vec()); })),
        ("block", Box::new(|b: &[u8]| { if let Ok(mut x) = Block::deserialize_from_net(b) { let _ = x.generate(); } })),
        ("transaction", Box::new(|b: &[u8]| { let _ = Transaction::deserialize_from_net(b); })),
        ("slip", Box::new(|b: &[u8]| { let _ = Slip::deserialize_from_net(&b.to_vec()); })),
        ("hop", Box::new(|b: &[u8]| { let _ = Hop::deserialize_from_net(&b.to_vec()); })),
        ("challenge", Box::new(|b: &[u8]| { let _ = HandshakeChallenge::deserialize(&b.to_vec()); })),
        ("response", Box::new(|b: &[u8]| { let _ = HandshakeResponse::deserialize(&b.to_vec()); })),
        ("chainreq", Box::new(|b: &[u8]| { let _ = BlockchainRequest::deserialize(&b.to_vec()); })),
        ("services", Box::new(|b: &[u8]| { let _ = PeerService::deserialize_services(b.to_vec()); })),
        ("version", Box::new(|b: &[u8]| { let _ = Version::deserialize(&b.to_vec()); })),
        ("wallet", Box::new(|b: &[u8]| { let k = key(42); let mut w = Wallet::new(k.private, k.public); w.deserialize_from_disk(b); })),
        // a golden-ticket transaction as it enters the pool from a peer: the payload is decoded there
        ("ticket", Box::new(|b: &[u8]| {
            static RT: std::sync::OnceLock<tokio::runtime::Runtime> = std::sync::OnceLock::new();
            let rt = RT.get_or_init(|| tokio::runtime::Builder::new_current_thread().build().unwrap());
            let k = key(43);
            let wallet = std::sync::Arc::new(tokio::sync::RwLock::new(Wallet::new(k.private, k.public)));
            let mut mp = saito_core::core::consensus::mempool::Mempool::new(wallet);
            let mut t = Transaction::default();
            t.transaction_type = TransactionType::GoldenTicket;
            t.data = b.to_vec();
            rt.block_on(mp.add_golden_ticket(t));
        })),
    ]
}

fn decode_mode(seed: u64, count: usize, out: &str) {
    let mut r = StdRng::seed_from_u64(seed);
    let mut trace = Trace::create(out);
    trace.emit(json!({"ev": "Reset", "scn": 0}));
    let signer = key(41);
    // valid encodings to mutate: (decoder name, bytes, offsets of count/length fields)
    let mut seeds: Vec<(&'static str, Vec<u8>, Vec<usize>)> = vec![];
    for _ in 0..6 {
        let mut t = gen_tx(&mut r, false);
        t.generate(&signer.public, 0, 0);
        let b = t.serialize_for_net();
        seeds.push(("transaction", b.clone(), vec![0, 4, 8, 12, 88]));
        seeds.push(("message", [vec![4u8], b].concat(), vec![1, 5, 9, 13]));
        let blk = gen_block(&mut r);
        let bb = blk.serialize_for_net(BlockType::Full);
        seeds.push(("block", bb.clone(), vec![0, 389, 393, 397, 401]));
        seeds.push(("message", [vec![3u8], bb].concat(), vec![1]));
    }
    {
        // a block whose merkle root has to be recomputed by the receiver, carrying a placeholder
        // transaction that claims to stand for millions of transactions
        let mut blk = gen_block(&mut r);
        blk.merkle_root = [0; 32];
        let mut t = gen_tx(&mut r, false);
        t.transaction_type = TransactionType::SPV;
        t.txs_replacements = 3_000_000;
        blk.transactions = vec![t];
        seeds.push(("block", blk.serialize_for_net(BlockType::Full), vec![389 + 88]));
    }
    let rp = HandshakeResponse { public_key: bytes::<33>(&mut r), signature: bytes::<64>(&mut r), is_lite: false,
        block_fetch_url: "http://host:1/".into(), challenge: bytes::<32>(&mut r),
        services: vec![PeerService { service: "a".into(), domain: "b".into(), name: "c".into() }],
        wallet_version: Version::new(1, 2, 3), core_version: Version::new(1, 2, 3) };
    let rb = rp.serialize();
    seeds.push(("response", rb.clone(), vec![138]));
    seeds.push(("message", [vec![2u8], rb].concat(), vec![139]));
    let g = GhostChainSync { start: [1; 32], prehashes: vec![[2; 32]; 3], previous_block_hashes: vec![[3; 32]; 3], block_ids: vec![1, 2, 3],
        block_ts: vec![4, 5, 6], txs: vec![true, false, true], gts: vec![false, true, false] };
    seeds.push(("message", Message::GhostChain(g).serialize(), vec![33]));
    seeds.push(("message", Message::KeyListUpdate(vec![[7; 33]; 2]).serialize(), vec![]));
    seeds.push(("message", Message::ApplicationMessage(ApiMessage { msg_index: 1, data: vec![1, 2, 3] }).serialize(), vec![]));
    seeds.push(("message", Message::Services(vec![PeerService { service: "a".into(), domain: "b".into(), name: "c".into() }]).serialize(), vec![]));
    seeds.push(("message", Message::BlockHeaderHash([9; 32], 5).serialize(), vec![]));
    seeds.push(("message", Message::GhostChainRequest(5, [9; 32], [8; 32]).serialize(), vec![]));
    seeds.push(("slip", gen_slip(&mut r).serialize_for_net(), vec![]));
    // (the runtime of the "ticket" decoder is created here, outside the allocation meter)
    for n in [97usize, 98, 99, 130, 400] {
        seeds.push(("ticket", (0..n).map(|i| (i * 7 + 1) as u8).collect(), vec![]));
    }
    seeds.push(("hop", gen_hop(&mut r).serialize_for_net(), vec![]));
    seeds.push(("version", vec![1, 2, 3, 4], vec![]));
    seeds.push(("chainreq", vec![5u8; 72], vec![]));
    seeds.push(("challenge", vec![5u8; 32], vec![]));
    { let k = key(42); let w = Wallet::new(k.private, k.public); seeds.push(("wallet", w.serialize_for_disk(), vec![])); }
    seeds.push(("services", b"a|b|c;d|e|f".to_vec(), vec![]));

    let decs = decoders();
    let run = |trace: &mut Trace, k: usize, name: &str, kind: String, input: &[u8]| {
        let dec = decs.iter().find(|(n, _)| *n == name).unwrap();
        let base = meter_start();
        let res = guarded(|| (dec.1)(input));
        let peak = meter_peak_over(base);
        let outcome = match res { Ok(()) => "returned".to_string(), Err(p) => format!("Panic:{}", p) };
        trace.emit(json!({"ev": "Decode", "scn": k, "i": 1, "dec": name, "mut": kind, "len": input.len(), "peak": peak.min(2_000_000_000),
                          "res": outcome}));
    };
    let mut k = 0usize;
    let boundary: [u32; 12] = [0, 1, 2, 3, 254, 255, 256, 257, 65535, 65536, 0x7fff_ffff, 0xffff_ffff];
    for (name, bytes_, counts) in seeds.iter() {
        // every truncation
        let step = if bytes_.len() > 1500 { 7 } else { 1 };
        let mut cut = 0;
        while cut <= bytes_.len() {
            run(&mut trace, k, name, format!("truncate:{}", cut), &bytes_[..cut]);
            k += 1;
            cut += step;
        }
        // boundary values in every count / length field
        for off in counts.iter() {
            if off + 4 > bytes_.len() { continue; }
            for v in boundary.iter() {
                let mut m = bytes_.clone();
                m[*off..*off + 4].copy_from_slice(&v.to_be_bytes());
                run(&mut trace, k, name, format!("count@{}={}", off, v), &m);
                k += 1;
            }
        }
        // single byte flips
        for _ in 0..40 {
            let mut m = bytes_.clone();
            if m.is_empty() { break; }
            let i = r.gen_range(0..m.len());
            m[i] ^= 1 << r.gen_range(0..8);
            run(&mut trace, k, name, format!("flip@{}", i), &m);
            k += 1;
        }
    }
    // placeholder claims that only overflow in sum: each input runs in a child process with an allocation cap
    {
        let claims: Vec<Vec<u32>> = vec![
            vec![u32::MAX], vec![1 << 31, 1 << 31], vec![u32::MAX, 1], vec![u32::MAX, u32::MAX], vec![u32::MAX, 2, 1],
            vec![1 << 31, 1 << 31, 5], vec![0xffff_fff0, 0x20], vec![3, 2], vec![0, 0], vec![65, 1],
        ];
        for c in claims.iter() {
            let mut blk = gen_block(&mut r);
            blk.merkle_root = [0; 32];
            blk.transactions = c
                .iter()
                .enumerate()
                .map(|(i, n)| {
                    let mut t = gen_tx(&mut r, false);
                    if i % 2 == 0 { t.transaction_type = TransactionType::SPV; }
                    t.txs_replacements = *n;
                    t
                })
                .collect();
            let input = blk.serialize_for_net(BlockType::Full);
            let exe = std::env::current_exe().expect("exe");
            let mut child = std::process::Command::new(exe)
                .args(["onecase", "0", "0", "-", &hx(&input)])
                .stdout(std::process::Stdio::piped())
                .stderr(std::process::Stdio::null())
                .spawn()
                .expect("spawn");
            let t0 = std::time::Instant::now();
            let mut status = None;
            while t0.elapsed() < std::time::Duration::from_secs(30) {
                match child.try_wait() { Ok(Some(st)) => { status = Some(st); break; } _ => std::thread::sleep(std::time::Duration::from_millis(20)) }
            }
            let (outcome, peak) = match status {
                Some(st) if st.success() => {
                    let mut out = String::new();
                    use std::io::Read;
                    let _ = child.stdout.take().map(|mut o| o.read_to_string(&mut out));
                    let v: Value = serde_json::from_str(out.trim()).unwrap_or(json!({"res": "Panic:child output unreadable", "peak": 0}));
                    (v["res"].as_str().unwrap_or("?").to_string(), v["peak"].as_u64().unwrap_or(0) as usize)
                }
                Some(_) => ("Panic:aborted at the allocation cap (1 GB in one request / 3 GB in total)".to_string(), 2_000_000_000),
                None => { let _ = child.kill(); let _ = child.wait(); ("Panic:no result within 30 s".to_string(), 2_000_000_000) }
            };
            trace.emit(json!({"ev": "Decode", "scn": k, "i": 1, "dec": "block", "mut": format!("claims:{:?}", c), "len": input.len(),
                              "peak": peak.min(2_000_000_000), "res": outcome}));
            k += 1;
        }
    }
    // random strings
    for _ in 0..count {
        let name = decs[r.gen_range(0..decs.len())].0;
        let len = [0usize, 1, 2, 16, 40, 72, 93, 100, 142, 200, 389, 400, 500, 1000][r.gen_range(0..14)];
        let mut b: Vec<u8> = (0..len).map(|_| r.gen()).collect();
        if name == "message" && !b.is_empty() { b[0] = r.gen_range(0..17); }
        if r.gen_bool(0.5) && b.len() >= 20 { for i in 0..16 { if i % 4 != 3 { b[i + (name == "message") as usize] = 0; } } }
        run(&mut trace, k, name, "random".to_string(), &b);
        k += 1;
    }
    let _ = hash(b"x");
    trace.flush();
    eprintln!("wire decode: {} inputs", k);
}

fn main() {
    let args: Vec<String> = std::env::args().collect();
    install_panic_recorder();
    let seed: u64 = args[2].parse().unwrap();
    let count: usize = args[3].parse().unwrap();
    match args[1].as_str() {
        "onecase" => {
            // one block buffer (hex) through the block decoder, under the allocation cap; prints the outcome
            CAP_ON.store(true, Ordering::Relaxed);
            let input: Vec<u8> = hex::decode(&args[5]).expect("hex");
            let decs = decoders();
            let dec = decs.iter().find(|(n, _)| *n == "block").unwrap();
            let base = meter_start();
            let res = guarded(|| (dec.1)(&input));
            let peak = meter_peak_over(base);
            let outcome = match res { Ok(()) => "returned".to_string(), Err(p) => format!("Panic:{}", p) };
            println!("{}", json!({"res": outcome, "peak": peak}));
        }
        "codec" => codec_mode(seed, count, &args[4]),
        _ => decode_mode(seed, count, &args[4]),
    }
}
