//! A node = the saito-core objects behind one set of shared locks, driven handler by handler.

use std::ops::Deref;
use std::sync::Arc;

use saito_core::core::consensus::block::{Block, BlockType};
use saito_core::core::consensus::blockchain::{AddBlockResult, Blockchain};
use saito_core::core::consensus::golden_ticket::GoldenTicket;
use saito_core::core::consensus::mempool::Mempool;
use saito_core::core::consensus::slip::{Slip, SlipType};
use saito_core::core::consensus::transaction::{Transaction, TransactionType};
use saito_core::core::consensus::wallet::Wallet;
use saito_core::core::defs::{
    Currency, SaitoHash, SaitoPrivateKey, SaitoPublicKey, SaitoSignature, Timestamp,
};
use saito_core::core::io::storage::Storage;
use saito_core::core::util::configuration::Configuration;
use saito_core::core::util::crypto::{generate_keypair_from_private_key, hash};
use tokio::sync::RwLock;

use crate::sim::{SimConfig, SimIo};

#[derive(Clone, Copy, Debug)]
pub struct Key {
    pub public: SaitoPublicKey,
    pub private: SaitoPrivateKey,
}

/// deterministic key number `i` (i >= 0)
pub fn key(i: u32) -> Key {
    let mut n = 0u32;
    loop {
        let seed = hash(format!("saito-verif-key-{}-{}", i, n).as_bytes());
        let r = std::panic::catch_unwind(|| generate_keypair_from_private_key(&seed));
        if let Ok((public, private)) = r {
            return Key { public, private };
        }
        n += 1;
    }
}

pub struct Node {
    pub key: Key,
    pub wallet: Arc<RwLock<Wallet>>,
    pub blockchain: Arc<RwLock<Blockchain>>,
    pub mempool: Arc<RwLock<Mempool>>,
    pub configs: Arc<RwLock<dyn Configuration + Send + Sync>>,
    pub storage: Storage,
    pub io: SimIo,
    pub genesis_period: u64,
    pub heartbeat: u64,
}

#[derive(Clone, Debug, PartialEq)]
pub enum AddOutcome {
    AddedLc,
    AddedSide,
    Exists,
    Retry(bool, bool),
    Invalid,
}

impl AddOutcome {
    pub fn name(&self) -> String {
        match self {
            AddOutcome::AddedLc => "AddedLc".into(),
            AddOutcome::AddedSide => "AddedSide".into(),
            AddOutcome::Exists => "Exists".into(),
            AddOutcome::Retry(a, b) => format!("Retry({},{})", a, b),
            AddOutcome::Invalid => "Invalid".into(),
        }
    }
}

impl Node {
    pub fn new(k: Key, cfg: SimConfig) -> Node {
        let io = SimIo::new();
        Self::with_io(k, cfg, io)
    }
    pub fn with_io(k: Key, cfg: SimConfig, io: SimIo) -> Node {
        let genesis_period = cfg.consensus.genesis_period;
        let heartbeat = cfg.consensus.heartbeat_interval;
        let stake = cfg.consensus.default_social_stake;
        let stake_period = cfg.consensus.default_social_stake_period;
        let wallet = Arc::new(RwLock::new(Wallet::new(k.private, k.public)));
        let blockchain = Arc::new(RwLock::new(Blockchain::new(
            wallet.clone(),
            genesis_period,
            stake,
            stake_period,
        )));
        let mempool = Arc::new(RwLock::new(Mempool::new(wallet.clone())));
        let configs: Arc<RwLock<dyn Configuration + Send + Sync>> = Arc::new(RwLock::new(cfg));
        Node {
            key: k,
            wallet,
            blockchain,
            mempool,
            configs,
            storage: Storage::new(Box::new(io.clone())),
            io,
            genesis_period,
            heartbeat,
        }
    }

    /// the critical section of `ConsensusThread` for one block: same lock order as the code
    pub async fn add_block(&mut self, block: Block) -> AddOutcome {
        let configs = self.configs.read().await;
        let mut blockchain = self.blockchain.write().await;
        let mut mempool = self.mempool.write().await;
        let r = blockchain
            .add_block(block, &mut self.storage, &mut mempool, configs.deref())
            .await;
        match r {
            AddBlockResult::BlockAddedSuccessfully(_, true, _) => AddOutcome::AddedLc,
            AddBlockResult::BlockAddedSuccessfully(_, false, _) => AddOutcome::AddedSide,
            AddBlockResult::BlockAlreadyExists => AddOutcome::Exists,
            AddBlockResult::FailedButRetry(_, a, b) => AddOutcome::Retry(a, b),
            AddBlockResult::FailedNotValid => AddOutcome::Invalid,
        }
    }

    /// Put `block` on top of this node's chain WITHOUT validation (builder nodes only).
    /// Performs exactly the state updates of a successful wind of one block.
    pub async fn force_wind(&mut self, mut block: Block) {
        let configs = self.configs.read().await;
        let mut bc = self.blockchain.write().await;
        block.generate().expect("builder: generate");
        let (id, h) = (block.id, block.hash);
        block.in_longest_chain = true;
        self.storage.write_block_to_disk(&block).await;
        if !bc.blockring.contains_block_hash_at_block_id(id, h) {
            bc.blockring.add_block(&block);
        }
        bc.blocks.insert(h, block);
        bc.blockring.empty = false;
        bc.blockring.on_chain_reorganization(id, h, true);
        {
            let bcm: &mut Blockchain = &mut bc;
            let blk = bcm.blocks.get_mut(&h).unwrap();
            blk.on_chain_reorganization(&mut bcm.utxoset, true);
        }
        bc.on_chain_reorganization(id, h, true, &self.storage, configs.deref())
            .await;
    }
}

/// a not-yet-signed user transaction spending `inputs` into `outputs`
pub fn make_tx(
    signer: &Key,
    inputs: &[Slip],
    outputs: &[(SaitoPublicKey, Currency)],
    timestamp: Timestamp,
    data: &[u8],
) -> Transaction {
    let mut tx = Transaction::default();
    tx.timestamp = timestamp;
    tx.data = data.to_vec();
    for s in inputs {
        tx.add_from_slip(s.clone());
    }
    for (pk, amt) in outputs {
        let mut o = Slip::default();
        o.public_key = *pk;
        o.amount = *amt;
        o.slip_type = SlipType::Normal;
        tx.add_to_slip(o);
    }
    tx.sign(&signer.private);
    tx
}

/// mine a golden ticket for `target` at `difficulty`; deterministic in `seed`
pub fn mine_golden_ticket(
    target: SaitoHash,
    difficulty: u64,
    miner: SaitoPublicKey,
    seed: u64,
) -> (GoldenTicket, SaitoHash) {
    let mut n = 0u64;
    loop {
        let mut v = target.to_vec();
        v.extend_from_slice(&seed.to_be_bytes());
        v.extend_from_slice(&n.to_be_bytes());
        let random = hash(&v);
        let gt = GoldenTicket::create(target, random, miner);
        if gt.validate(difficulty) {
            return (gt, random);
        }
        n += 1;
    }
}

pub fn golden_ticket_tx(gt: &GoldenTicket, signer: &Key, timestamp: Timestamp) -> Transaction {
    let mut tx = Transaction::default();
    tx.transaction_type = TransactionType::GoldenTicket;
    tx.timestamp = timestamp;
    tx.data = gt.serialize_for_net();
    // same shape as Wallet::create_golden_ticket_transaction: one zero input, one zero output
    let mut input = Slip::default();
    input.public_key = signer.public;
    input.amount = 0;
    let mut output = Slip::default();
    output.public_key = signer.public;
    output.amount = 0;
    tx.add_from_slip(input);
    tx.add_to_slip(output);
    tx.sign(&signer.private);
    tx
}

pub struct BlockSpec {
    pub parent: SaitoHash,
    pub timestamp: Timestamp,
    pub txs: Vec<Transaction>,
    pub golden_ticket: Option<Transaction>,
}

impl Node {
    /// Produce a block on `spec.parent` with the node's real producer (`Block::create`).
    pub async fn create_block(&mut self, creator: &Key, spec: BlockSpec) -> Result<Block, String> {
        let configs = self.configs.read().await;
        let bc = self.blockchain.read().await;
        // a fixed hasher state: Block::create drains this map, so its iteration order is the order of the
        // transactions in the block - with ahash's per-process random state scenarios would not be reproducible
        let mut map: ahash::AHashMap<SaitoSignature, Transaction> =
            ahash::AHashMap::with_hasher(ahash::RandomState::with_seeds(11, 13, 17, 19));
        for mut tx in spec.txs {
            tx.generate(&creator.public, 0, 0);
            map.insert(tx.signature, tx);
        }
        let gt = spec.golden_ticket.map(|mut t| {
            t.generate(&creator.public, 0, 0);
            t
        });
        let block = Block::create(
            &mut map,
            spec.parent,
            &bc,
            spec.timestamp,
            &creator.public,
            &creator.private,
            gt,
            configs.deref(),
            &self.storage,
        )
        .await
        .map_err(|e| format!("{:?}", e))?;
        Ok(block)
    }

    /// genesis block: issuance transactions only, built the way `bundle_genesis_block`/tests do
    pub async fn create_genesis(
        &mut self,
        creator: &Key,
        timestamp: Timestamp,
        issuance: &[(SaitoPublicKey, Currency)],
    ) -> Block {
        let mut block = self
            .create_block(
                creator,
                BlockSpec {
                    parent: [0; 32],
                    timestamp,
                    txs: vec![],
                    golden_ticket: None,
                },
            )
            .await
            .expect("genesis");
        for (pk, amt) in issuance {
            let mut tx = Transaction::create_issuance_transaction(*pk, *amt);
            tx.generate(pk, 0, 0);
            tx.sign(&creator.private);
            block.add_transaction(tx);
        }
        block.merkle_root = block.generate_merkle_root(false, false);
        block.generate().unwrap();
        block.sign(&creator.private);
        block.generate().unwrap();
        block
    }
}

/// wire round trip, as a block fetched from a peer would arrive
pub fn over_the_wire(block: &Block) -> Block {
    let bytes = block.serialize_for_net(BlockType::Full);
    let mut b = Block::deserialize_from_net(&bytes).expect("honest block must decode");
    b.generate().expect("generate after decode");
    b
}

/// drain the wind/unwind step records of the cfg(saito_verif) hook as JSON
/// (["W", hash-hex, ok] / ["U", hash-hex] / ["BudgetExceeded"])
pub fn drain_steps_raw() -> Vec<saito_core::core::consensus::verif_hook::Step> {
    saito_core::core::consensus::verif_hook::drain()
}
