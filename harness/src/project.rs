//! Projection of implementation state to the abstract state of the specification.
//! This module only reads public fields; it never calls logic of the code under test
//! beyond accessors.

use std::collections::{BTreeMap, BTreeSet};

use saito_core::core::consensus::blockchain::Blockchain;
use saito_core::core::consensus::wallet::Wallet;
use saito_core::core::defs::SaitoHash;
use serde_json::{json, Value};

use crate::world::World;

pub const UNMAPPED_BLOCK: u32 = 9999;

pub struct HashMapIds {
    pub ids: BTreeMap<SaitoHash, u32>,
}

impl HashMapIds {
    pub fn new() -> Self {
        HashMapIds {
            ids: BTreeMap::new(),
        }
    }
    pub fn id(&self, h: &SaitoHash) -> u32 {
        if *h == [0u8; 32] {
            return 0;
        }
        *self.ids.get(h).unwrap_or(&UNMAPPED_BLOCK)
    }
}

pub fn chain_view(bc: &Blockchain, ids: &HashMapIds, world: &World, max_h: u64) -> Value {
    let tip = ids.id(&bc.blockring.get_latest_block_hash());
    let tip_height = bc.blockring.get_latest_block_id();
    let mut lc = vec![];
    for h in 1..=max_h {
        match bc.blockring.get_longest_chain_block_hash_at_block_id(h) {
            Some(hash) => lc.push(ids.id(&hash)),
            None => lc.push(0),
        }
    }
    let mut stored = BTreeSet::new();
    let mut inlc = BTreeSet::new();
    for (h, b) in bc.blocks.iter() {
        let id = ids.id(h);
        stored.insert(id);
        if b.in_longest_chain {
            inlc.insert(id);
        }
    }
    let mut utxo = BTreeSet::new();
    for (k, v) in bc.utxoset.iter() {
        if *v {
            utxo.insert(world.name_of(k));
        } else {
            utxo.insert(format!("F{}", world.name_of(k)));
        }
    }
    // ring slots: every (height, id) pair the ring holds, for "stored blocks" comparisons
    let mut ring = BTreeSet::new();
    for item in bc.blockring.ring.iter() {
        for (i, h) in item.block_hashes.iter().enumerate() {
            ring.insert((item.block_ids[i], ids.id(h)));
        }
    }
    json!({
        "tip": tip,
        "tiph": tip_height,
        "top": bc.last_block_id,
        "lc": lc,
        "stored": stored.into_iter().collect::<Vec<_>>(),
        "inlc": inlc.into_iter().collect::<Vec<_>>(),
        "utxo": utxo.into_iter().collect::<Vec<_>>(),
        "ring": ring.into_iter().map(|(h, id)| vec![h as u32, id]).collect::<Vec<_>>(),
    })
}

pub fn wallet_view(w: &Wallet, world: &World) -> Value {
    let mut unspent = BTreeSet::new();
    for k in w.unspent_slips.iter() {
        unspent.insert(world.name_of(k));
    }
    let mut slips = BTreeSet::new();
    for (k, s) in w.slips.iter() {
        slips.insert(format!("{}{}", world.name_of(k), if s.spent { "!" } else { "" }));
    }
    json!({
        "unspent": unspent.into_iter().collect::<Vec<_>>(),
        "slips": slips.into_iter().collect::<Vec<_>>(),
        "bal_lo": (w.get_available_balance() % (1u64 << 30)) as u64,
        "bal_hi": (w.get_available_balance() >> 30) as u64,
    })
}
