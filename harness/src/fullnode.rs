//! A whole node: the routing, verification and consensus handlers of saito-core wired to in-memory
//! channels and stepped one handler call at a time by the harness (C11, C12, C15).
//! No tokio tasks: the harness is the scheduler, so every interleaving of handler calls is a choice
//! it makes and records.

use std::collections::VecDeque;
use std::sync::Arc;
use std::time::Duration;

use saito_core::core::consensus::blockchain_sync_state::BlockchainSyncState;
use saito_core::core::consensus::peers::peer_collection::PeerCollection;
use saito_core::core::consensus_thread::{ConsensusEvent, ConsensusStats, ConsensusThread};
use saito_core::core::defs::{StatVariable, STAT_BIN_COUNT};
use saito_core::core::io::network::Network;
use saito_core::core::io::network_event::NetworkEvent;
use saito_core::core::io::storage::Storage;
use saito_core::core::mining_thread::MiningEvent;
use saito_core::core::process::keep_time::Timer;
use saito_core::core::process::process_event::ProcessEvent;
use saito_core::core::routing_thread::{RoutingEvent, RoutingStats, RoutingThread};
use saito_core::core::verification_thread::{VerificationThread, VerifyRequest};
use tokio::sync::mpsc::Receiver;
use tokio::sync::RwLock;

use crate::node::{Key, Node};
use crate::sim::{SimClock, SimConfig, SimIo};

pub struct FullNode {
    pub node: Node,
    pub peers: Arc<RwLock<PeerCollection>>,
    pub clock: SimClock,
    pub routing: RoutingThread,
    pub verification: VerificationThread,
    pub consensus: ConsensusThread,
    rx_router: Receiver<RoutingEvent>,
    rx_consensus: Receiver<ConsensusEvent>,
    rx_miner: Receiver<MiningEvent>,
    rx_verif: Receiver<VerifyRequest>,
    rx_stat: Receiver<String>,
    /// items taken out of the channels, waiting for the harness to schedule them
    /// (item, origin tag): the tag is the one that was current when the item was produced
    pub q_router: VecDeque<(RoutingEvent, u8)>,
    pub q_consensus: VecDeque<(ConsensusEvent, u8)>,
    pub q_verif: VecDeque<(VerifyRequest, u8)>,
    pub mined: Vec<MiningEvent>,
    /// origin tag given to whatever the handler call in progress produces
    pub origin: u8,
}

#[derive(Clone, Copy, Debug, PartialEq, Eq)]
pub enum Queue {
    Verification,
    Consensus,
    Router,
}

impl FullNode {
    pub fn new(k: Key, cfg: SimConfig, io: SimIo, clock: SimClock) -> FullNode {
        let batch = cfg.server.as_ref().map(|s| s.block_fetch_batch_size).unwrap_or(10) as usize;
        let node = Node::with_io(k, cfg, io.clone());
        let peers = Arc::new(RwLock::new(PeerCollection::default()));
        let timer = Timer {
            time_reader: Arc::new(clock.clone()),
            hasten_multiplier: 1,
            start_time: clock.now(),
        };
        let n = 100_000;
        let (tx_cons, rx_consensus) = tokio::sync::mpsc::channel(n);
        let (tx_router, rx_router) = tokio::sync::mpsc::channel(n);
        let (tx_miner, rx_miner) = tokio::sync::mpsc::channel(n);
        let (tx_stat, rx_stat) = tokio::sync::mpsc::channel(n);
        let (tx_verif, rx_verif) = tokio::sync::mpsc::channel(n);
        let stat = |name: &str| StatVariable::new(name.to_string(), STAT_BIN_COUNT, tx_stat.clone());
        let network = |io: &SimIo| {
            Network::new(
                Box::new(io.clone()),
                peers.clone(),
                node.wallet.clone(),
                node.configs.clone(),
                timer.clone(),
            )
        };
        let routing = RoutingThread {
            blockchain_lock: node.blockchain.clone(),
            mempool_lock: node.mempool.clone(),
            sender_to_consensus: tx_cons.clone(),
            sender_to_miner: tx_miner.clone(),
            config_lock: node.configs.clone(),
            timer: timer.clone(),
            wallet_lock: node.wallet.clone(),
            network: network(&io),
            storage: Storage::new(Box::new(io.clone())),
            reconnection_timer: 0,
            peer_removal_timer: 0,
            peer_file_write_timer: 0,
            last_emitted_block_fetch_count: 0,
            stats: RoutingStats::new(tx_stat.clone()),
            senders_to_verification: vec![tx_verif.clone()],
            last_verification_thread_index: 0,
            stat_sender: tx_stat.clone(),
            blockchain_sync_state: BlockchainSyncState::new(if batch == 0 { 10 } else { batch }),
        };
        let consensus = ConsensusThread {
            mempool_lock: node.mempool.clone(),
            blockchain_lock: node.blockchain.clone(),
            wallet_lock: node.wallet.clone(),
            generate_genesis_block: false,
            sender_to_router: tx_router.clone(),
            sender_to_miner: tx_miner.clone(),
            block_producing_timer: 0,
            timer: timer.clone(),
            network: network(&io),
            storage: Storage::new(Box::new(io.clone())),
            stats: ConsensusStats::new(tx_stat.clone()),
            txs_for_mempool: vec![],
            stat_sender: tx_stat.clone(),
            config_lock: node.configs.clone(),
            produce_blocks_by_timer: true,
            delete_old_blocks: true,
        };
        let verification = VerificationThread {
            sender_to_consensus: tx_cons.clone(),
            blockchain_lock: node.blockchain.clone(),
            peer_lock: peers.clone(),
            wallet_lock: node.wallet.clone(),
            processed_txs: stat("verification::processed_txs"),
            processed_blocks: stat("verification::processed_blocks"),
            processed_msgs: stat("verification::processed_msgs"),
            invalid_txs: stat("verification::invalid_txs"),
            stat_sender: tx_stat.clone(),
        };
        FullNode {
            node,
            peers,
            clock,
            routing,
            verification,
            consensus,
            rx_router,
            rx_consensus,
            rx_miner,
            rx_verif,
            rx_stat,
            q_router: VecDeque::new(),
            q_consensus: VecDeque::new(),
            q_verif: VecDeque::new(),
            mined: vec![],
            origin: 0,
        }
    }

    /// move whatever the handlers sent into the harness-side queues
    pub fn collect(&mut self) {
        while let Ok(e) = self.rx_router.try_recv() {
            self.q_router.push_back((e, self.origin));
        }
        while let Ok(e) = self.rx_consensus.try_recv() {
            self.q_consensus.push_back((e, self.origin));
        }
        while let Ok(e) = self.rx_verif.try_recv() {
            self.q_verif.push_back((e, self.origin));
        }
        while let Ok(e) = self.rx_miner.try_recv() {
            self.mined.push(e);
        }
        while self.rx_stat.try_recv().is_ok() {}
    }

    pub async fn init(&mut self) {
        self.routing.on_init().await;
        self.consensus.on_init().await;
        // an empty disk and no configured peer make the consensus handler want to produce a genesis block at
        // the next timer tick; the harness supplies the chain itself
        self.consensus.generate_genesis_block = false;
        self.collect();
    }

    /// one event from the network layer
    pub async fn net(&mut self, ev: NetworkEvent) -> bool {
        let r = self.routing.process_network_event(ev).await.is_some();
        self.collect();
        r
    }

    pub fn pending(&self, q: Queue, origin: u8) -> usize {
        match q {
            Queue::Verification => self.q_verif.iter().filter(|(_, o)| *o == origin).count(),
            Queue::Consensus => self.q_consensus.iter().filter(|(_, o)| *o == origin).count(),
            Queue::Router => self.q_router.iter().filter(|(_, o)| *o == origin).count(),
        }
    }

    /// the oldest item with the given origin tag of one internal queue (false when there is none);
    /// what it produces inherits the tag
    pub async fn run(&mut self, q: Queue, origin: u8) -> bool {
        let saved = self.origin;
        self.origin = origin;
        let had = match q {
            Queue::Verification => match self.q_verif.iter().position(|(_, o)| *o == origin) {
                Some(i) => {
                    let (e, _) = self.q_verif.remove(i).unwrap();
                    self.verification.process_event(e).await;
                    true
                }
                None => false,
            },
            Queue::Consensus => match self.q_consensus.iter().position(|(_, o)| *o == origin) {
                Some(i) => {
                    let (e, _) = self.q_consensus.remove(i).unwrap();
                    self.consensus.process_event(e).await;
                    true
                }
                None => false,
            },
            Queue::Router => match self.q_router.iter().position(|(_, o)| *o == origin) {
                Some(i) => {
                    let (e, _) = self.q_router.remove(i).unwrap();
                    self.routing.process_event(e).await;
                    true
                }
                None => false,
            },
        };
        self.collect();
        self.origin = saved;
        had
    }

    /// run the items of one origin to quiescence in a fixed order (verification, consensus, router)
    pub async fn drain(&mut self, origin: u8, budget: usize) -> usize {
        let mut n = 0;
        while n < budget {
            let q = if self.pending(Queue::Verification, origin) > 0 {
                Queue::Verification
            } else if self.pending(Queue::Consensus, origin) > 0 {
                Queue::Consensus
            } else if self.pending(Queue::Router, origin) > 0 {
                Queue::Router
            } else {
                break;
            };
            self.run(q, origin).await;
            n += 1;
        }
        n
    }

    /// timers of the routing and consensus handlers
    pub async fn tick(&mut self, ms: u64) {
        self.clock.advance(ms);
        self.routing.process_timer_event(Duration::from_millis(ms)).await;
        self.collect();
        self.consensus.process_timer_event(Duration::from_millis(ms)).await;
        self.collect();
    }
}
