//! Scenario world: one fixed genesis, honest blocks produced by builder nodes (one per branch),
//! adversarial edits, and the registry mapping real hashes / utxo keys to abstract names.

use std::collections::{BTreeMap, HashMap};

use saito_core::core::consensus::block::Block;
use saito_core::core::consensus::hop::Hop;
use saito_core::core::consensus::slip::Slip;
use saito_core::core::defs::{Currency, SaitoHash, SaitoUTXOSetKey, Timestamp};
use serde::{Deserialize, Serialize};

use crate::node::{
    golden_ticket_tx, key, make_tx, mine_golden_ticket, BlockSpec, Key, Node,
};
use crate::sim::SimConfig;

pub const T0: Timestamp = 1_700_000_000_000;
pub const SLIP_AMOUNT: Currency = 1_000_000_000; // per dedicated genesis slip

/// abstract description of one block of a scenario tree
#[derive(Clone, Debug, Serialize, Deserialize)]
pub struct BlockDesc {
    pub id: u32,
    pub parent: u32, // 0 = none (root)
    #[serde(default)]
    pub gt: bool,
    /// weight class: 1 = light (long gap), 2 = normal, 3 = heavy (short gap, needs routing work)
    #[serde(default = "default_w")]
    pub w: u32,
    #[serde(default = "default_true")]
    pub ok: bool,
    /// kind of invalidity when !ok
    #[serde(default)]
    pub bad: Option<String>,
}
fn default_w() -> u32 {
    2
}
fn default_true() -> bool {
    true
}

#[derive(Clone)]
pub struct Built {
    pub block: Block,
    pub ins: Vec<String>,
    pub outs: Vec<String>,
}

pub struct World {
    pub genesis_period: u64,
    pub heartbeat: u64,
    pub creator: Key, // creates every block
    pub payer: Key,   // owns the dedicated genesis slips
    pub miner: Key,   // solves golden tickets
    pub n_slips: usize,
    pub genesis: Block,
    /// utxo key -> abstract output name
    pub outputs: HashMap<SaitoUTXOSetKey, String>,
    /// block hash -> built block (by path key)
    pub cache: HashMap<String, Built>,
}

impl World {
    pub fn cfg(&self) -> SimConfig {
        let mut c = SimConfig::new(self.genesis_period, self.heartbeat);
        if self.genesis_period < 50 {
            // short-window worlds also drop transaction data early, so that reorganisations a
            // few blocks deep have to reload blocks from disk
            c.consensus.prune_after_blocks = 2;
        }
        c
    }

    pub async fn new(genesis_period: u64, heartbeat: u64, n_slips: usize) -> World {
        let creator = key(1);
        let payer = key(2);
        let miner = key(3);
        let mut builder = Node::new(creator, SimConfig::new(genesis_period, heartbeat));
        let mut issuance = vec![];
        for _ in 0..n_slips {
            issuance.push((payer.public, SLIP_AMOUNT));
        }
        let genesis = builder.create_genesis(&creator, T0, &issuance).await;
        let mut w = World {
            genesis_period,
            heartbeat,
            creator,
            payer,
            miner,
            n_slips,
            genesis,
            outputs: HashMap::new(),
            cache: HashMap::new(),
        };
        let g = w.genesis.clone();
        w.register_outputs(&g, "g");
        w
    }

    /// name every value-carrying output of `block`: "<prefix><tx>.<idx>"
    pub fn register_outputs(&mut self, block: &Block, prefix: &str) -> Vec<String> {
        let mut names = vec![];
        for (ti, tx) in block.transactions.iter().enumerate() {
            for (si, s) in tx.to.iter().enumerate() {
                if s.amount > 0 {
                    // a utxo key does not contain the block hash, so blocks on different forks
                    // can create the very same key (e.g. equal payouts at equal positions): the
                    // first name registered for a key is THE name of that ledger entry
                    let name = self
                        .outputs
                        .entry(s.get_utxoset_key())
                        .or_insert_with(|| format!("{}{}.{}", prefix, ti, si))
                        .clone();
                    names.push(name);
                }
            }
        }
        names
    }

    pub fn name_of(&self, k: &SaitoUTXOSetKey) -> String {
        match self.outputs.get(k) {
            Some(n) => n.clone(),
            None => format!("X{}", hex::encode(&k[33..59])),
        }
    }

    /// the dedicated genesis slip number `n` (0-based) as an input
    pub fn genesis_slip(&self, n: usize) -> Slip {
        // genesis block: tx 0.. are issuance transactions in order
        let tx = &self.genesis.transactions[n];
        let mut s = tx.to[0].clone();
        s.generate_utxoset_key();
        s
    }

    pub fn input_names(&self, block: &Block) -> Vec<String> {
        let mut v = vec![];
        for tx in block.transactions.iter() {
            for s in tx.from.iter() {
                if s.amount > 0 {
                    v.push(self.name_of(&s.get_utxoset_key()));
                }
            }
        }
        v
    }

    /// Build the real block for `desc`, whose ancestors (root excluded) are `path` (root-first,
    /// already built).  `salt` distinguishes siblings with identical attributes.
    pub async fn build(
        &mut self,
        path: &[Built],
        desc: &BlockDesc,
        slip_no: usize,
        cache_key: &str,
    ) -> Built {
        if let Some(b) = self.cache.get(cache_key) {
            return b.clone();
        }
        let mut builder = Node::new(self.creator, self.cfg());
        builder.force_wind(self.genesis.clone()).await;
        for b in path {
            builder.force_wind(b.block.clone()).await;
        }
        let parent = path.last().map(|b| b.block.clone()).unwrap_or(self.genesis.clone());
        let gap = match desc.w {
            1 => 4 * self.heartbeat,
            2 => 2 * self.heartbeat,
            _ => self.heartbeat,
        };
        let ts = parent.timestamp + gap;
        // one self-payment from the block's dedicated genesis slip; fee covers the routing work
        // with a short retention window the dedicated genesis slips are rebroadcast before they
        // are used: there every block spends the change output of its parent's payment instead
        let mut input = self.genesis_slip(slip_no);
        if self.genesis_period < 50 {
            if let Some(p) = path.last() {
                let change = p
                    .block
                    .transactions
                    .iter()
                    .filter(|t| t.transaction_type == saito_core::core::consensus::transaction::TransactionType::Normal)
                    .filter_map(|t| t.to.get(1))
                    .next()
                    .expect("parent has a payment");
                input = change.clone();
            }
        }
        let needed = saito_core::core::consensus::burnfee::BurnFee::return_routing_work_needed_to_produce_block_in_nolan(
            parent.burnfee, ts, parent.timestamp, self.heartbeat);
        let fee: Currency = needed;
        assert!(fee < input.amount, "fee {} exceeds slip", fee);
        // utxo keys do not contain the block hash: make the amounts unique per block so that
        // outputs of sibling blocks have distinct keys (and distinct abstract names)
        let h = saito_core::core::util::crypto::hash(cache_key.as_bytes());
        let uniq: Currency = 1 + (u64::from_be_bytes(h[0..8].try_into().unwrap()) % 1_000_000);
        let mut tx = make_tx(
            &self.payer,
            &[input.clone()],
            &[
                (self.payer.public, uniq),
                (self.payer.public, input.amount - fee - uniq),
            ],
            ts,
            cache_key.as_bytes(),
        );
        if fee > 0 {
            let hop = Hop::generate(&self.payer.private, &self.payer.public, &self.creator.public, &tx);
            tx.path.push(hop);
        }
        let gt = if desc.gt {
            let (gt, _) = mine_golden_ticket(parent.hash, parent.difficulty, self.miner.public, slip_no as u64);
            Some(golden_ticket_tx(&gt, &self.creator, ts))
        } else {
            None
        };
        let creator = self.creator;
        let mut block = builder
            .create_block(
                &creator,
                BlockSpec {
                    parent: parent.hash,
                    timestamp: ts,
                    txs: vec![tx],
                    golden_ticket: gt,
                },
            )
            .await
            .expect("honest block creation");
        if !desc.ok {
            apply_block_edit(&mut block, desc.bad.as_deref().unwrap_or("burnfee"), &creator);
        }
        let prefix = format!("b{}.", cache_key_id(cache_key));
        let outs = self.register_outputs(&block, &prefix);
        let ins = self.input_names(&block);
        let built = Built { block, ins, outs };
        self.cache.insert(cache_key.to_string(), built.clone());
        built
    }
}

/// short stable id for a cache key (used inside output names)
pub fn cache_key_id(k: &str) -> String {
    let h = saito_core::core::util::crypto::hash(k.as_bytes());
    hex::encode(&h[0..5])
}

/// Adversarial edits of an honest block that keep it decodable, storable and correctly signed
/// (so exactly one validation rule is broken).
pub fn apply_block_edit(block: &mut Block, kind: &str, creator: &Key) {
    match kind {
        "burnfee" => {
            block.burnfee += 1;
        }
        "difficulty" => {
            block.difficulty += 1;
        }
        "treasury" => {
            block.treasury += 1;
        }
        "unpaid" => {
            block.previous_block_unpaid += 1;
        }
        other => panic!("unknown block edit {}", other),
    }
    block.generate_pre_hash();
    block.sign(&creator.private);
    block.generate().unwrap();
}

pub fn limbs(x: u64) -> [u64; 3] {
    let base = 1u64 << 21;
    [x >> 42, (x >> 21) % base, x % base]
}

pub type HashNames = BTreeMap<SaitoHash, u32>;
