//! In-memory environment for driving saito-core objects: I/O boundary, configuration, clock.
//! Everything the node does to the outside world is journalled here.

use std::collections::BTreeMap;
use std::fmt::{Debug, Formatter};
use std::io::{Error, ErrorKind};
use std::sync::atomic::{AtomicU64, Ordering};
use std::sync::{Arc, Mutex};

use async_trait::async_trait;
use saito_core::core::consensus::peers::peer_service::PeerService;
use saito_core::core::consensus::wallet::Wallet;
use saito_core::core::defs::{BlockId, PeerIndex, SaitoHash, Timestamp};
use saito_core::core::io::interface_io::{InterfaceEvent, InterfaceIO};
use saito_core::core::process::keep_time::KeepTime;
use saito_core::core::util::configuration::{
    BlockchainConfig, Configuration, ConsensusConfig, Endpoint, PeerConfig, Server,
};

pub const BLOCK_DIR: &str = "blocks/";

#[derive(Clone, Debug, PartialEq)]
pub enum IoOp {
    Write { key: String, len: usize },
    Remove { key: String },
    Send { peer: u64, buf: Vec<u8> },
    SendAll { buf: Vec<u8>, excluded: Vec<u64> },
    Connect { url: String, peer: u64 },
    Disconnect { peer: u64 },
    Fetch { hash: SaitoHash, peer: u64, url: String, id: u64 },
    Event(String),
}

#[derive(Default, Debug)]
pub struct IoState {
    pub files: BTreeMap<String, Vec<u8>>,
    pub journal: Vec<IoOp>,
    /// every write (with its content) and removal since the start, never drained: the storage history that
    /// crash images are cut from (C12)
    pub history: Vec<(bool, String, Vec<u8>)>,
    /// what the store held when it was created (a node restarted on an existing disk image)
    pub base: BTreeMap<String, Vec<u8>>,
    /// fail `fetch_block_from_peer` synchronously when set
    pub fetch_fails: bool,
}

#[derive(Clone, Default)]
pub struct SimIo {
    pub st: Arc<Mutex<IoState>>,
}

impl Debug for SimIo {
    fn fmt(&self, f: &mut Formatter<'_>) -> std::fmt::Result {
        f.write_str("SimIo")
    }
}

impl SimIo {
    pub fn new() -> Self {
        Self::default()
    }
    pub fn drain_journal(&self) -> Vec<IoOp> {
        std::mem::take(&mut self.st.lock().unwrap().journal)
    }
    pub fn files(&self) -> BTreeMap<String, Vec<u8>> {
        self.st.lock().unwrap().files.clone()
    }
    pub fn base(&self) -> BTreeMap<String, Vec<u8>> {
        self.st.lock().unwrap().base.clone()
    }
    pub fn history(&self) -> Vec<(bool, String, Vec<u8>)> {
        self.st.lock().unwrap().history.clone()
    }
    /// a fresh store holding exactly `files`
    pub fn with_files(files: BTreeMap<String, Vec<u8>>) -> Self {
        let io = SimIo::new();
        {
            let mut st = io.st.lock().unwrap();
            st.base = files.clone();
            st.files = files;
        }
        io
    }
}

#[async_trait]
impl InterfaceIO for SimIo {
    async fn send_message(&self, peer_index: u64, buffer: &[u8]) -> Result<(), Error> {
        self.st.lock().unwrap().journal.push(IoOp::Send {
            peer: peer_index,
            buf: buffer.to_vec(),
        });
        Ok(())
    }
    async fn send_message_to_all(
        &self,
        buffer: &[u8],
        excluded_peers: Vec<u64>,
    ) -> Result<(), Error> {
        self.st.lock().unwrap().journal.push(IoOp::SendAll {
            buf: buffer.to_vec(),
            excluded: excluded_peers,
        });
        Ok(())
    }
    async fn connect_to_peer(&mut self, url: String, peer_index: PeerIndex) -> Result<(), Error> {
        self.st.lock().unwrap().journal.push(IoOp::Connect {
            url,
            peer: peer_index,
        });
        Ok(())
    }
    async fn disconnect_from_peer(&self, peer_index: u64) -> Result<(), Error> {
        self.st
            .lock()
            .unwrap()
            .journal
            .push(IoOp::Disconnect { peer: peer_index });
        Ok(())
    }
    async fn fetch_block_from_peer(
        &self,
        block_hash: SaitoHash,
        peer_index: u64,
        url: &str,
        block_id: BlockId,
    ) -> Result<(), Error> {
        let mut st = self.st.lock().unwrap();
        st.journal.push(IoOp::Fetch {
            hash: block_hash,
            peer: peer_index,
            url: url.to_string(),
            id: block_id,
        });
        if st.fetch_fails {
            return Err(Error::from(ErrorKind::ConnectionRefused));
        }
        Ok(())
    }
    async fn write_value(&self, key: &str, value: &[u8]) -> Result<(), Error> {
        let mut st = self.st.lock().unwrap();
        st.journal.push(IoOp::Write {
            key: key.to_string(),
            len: value.len(),
        });
        st.files.insert(key.to_string(), value.to_vec());
        st.history.push((true, key.to_string(), value.to_vec()));
        Ok(())
    }
    async fn append_value(&mut self, key: &str, value: &[u8]) -> Result<(), Error> {
        let mut st = self.st.lock().unwrap();
        st.files
            .entry(key.to_string())
            .or_default()
            .extend_from_slice(value);
        Ok(())
    }
    async fn flush_data(&mut self, _key: &str) -> Result<(), Error> {
        Ok(())
    }
    async fn read_value(&self, key: &str) -> Result<Vec<u8>, Error> {
        self.st
            .lock()
            .unwrap()
            .files
            .get(key)
            .cloned()
            .ok_or_else(|| Error::from(ErrorKind::NotFound))
    }
    async fn load_block_file_list(&self) -> Result<Vec<String>, Error> {
        let st = self.st.lock().unwrap();
        Ok(st
            .files
            .keys()
            .filter(|k| k.starts_with(BLOCK_DIR) && k.ends_with(".sai"))
            .map(|k| k[BLOCK_DIR.len()..].to_string())
            .collect())
    }
    async fn is_existing_file(&self, key: &str) -> bool {
        self.st.lock().unwrap().files.contains_key(key)
    }
    async fn remove_value(&self, key: &str) -> Result<(), Error> {
        let mut st = self.st.lock().unwrap();
        st.journal.push(IoOp::Remove {
            key: key.to_string(),
        });
        st.files.remove(key);
        st.history.push((false, key.to_string(), vec![]));
        Ok(())
    }
    fn get_block_dir(&self) -> String {
        BLOCK_DIR.to_string()
    }
    fn get_checkpoint_dir(&self) -> String {
        "checkpoints/".to_string()
    }
    fn ensure_block_directory_exists(&self, _block_dir: &str) -> Result<(), Error> {
        Ok(())
    }
    async fn process_api_call(&self, _buffer: Vec<u8>, _msg_index: u32, _peer_index: PeerIndex) {
        self.st
            .lock()
            .unwrap()
            .journal
            .push(IoOp::Event("api_call".into()));
    }
    async fn process_api_success(&self, _buffer: Vec<u8>, _msg_index: u32, _peer_index: PeerIndex) {
        self.st
            .lock()
            .unwrap()
            .journal
            .push(IoOp::Event("api_success".into()));
    }
    async fn process_api_error(&self, _buffer: Vec<u8>, _msg_index: u32, _peer_index: PeerIndex) {
        self.st
            .lock()
            .unwrap()
            .journal
            .push(IoOp::Event("api_error".into()));
    }
    fn send_interface_event(&self, event: InterfaceEvent) {
        let s = match event {
            InterfaceEvent::PeerHandshakeComplete(i) => format!("HandshakeComplete({})", i),
            InterfaceEvent::PeerConnectionDropped(i, _) => format!("ConnectionDropped({})", i),
            InterfaceEvent::PeerConnected(i) => format!("PeerConnected({})", i),
            InterfaceEvent::BlockAddSuccess(_, id) => format!("BlockAddSuccess({})", id),
            InterfaceEvent::WalletUpdate() => "WalletUpdate".to_string(),
            InterfaceEvent::NewVersionDetected(i, _) => format!("NewVersion({})", i),
            InterfaceEvent::StunPeerConnected(i) => format!("StunConnected({})", i),
            InterfaceEvent::StunPeerDisconnected(i, _) => format!("StunDisconnected({})", i),
            InterfaceEvent::BlockFetchStatus(i) => format!("BlockFetchStatus({})", i),
        };
        self.st.lock().unwrap().journal.push(IoOp::Event(s));
    }
    async fn save_wallet(&self, _wallet: &mut Wallet) -> Result<(), Error> {
        Ok(())
    }
    async fn load_wallet(&self, _wallet: &mut Wallet) -> Result<(), Error> {
        Ok(())
    }
    fn get_my_services(&self) -> Vec<PeerService> {
        vec![]
    }
}

#[derive(Clone, Debug)]
pub struct SimConfig {
    pub server: Option<Server>,
    pub peers: Vec<PeerConfig>,
    pub blockchain: BlockchainConfig,
    pub consensus: ConsensusConfig,
    pub spv: bool,
    pub browser: bool,
    pub fetch_url: String,
}

impl SimConfig {
    pub fn new(genesis_period: u64, heartbeat: u64) -> Self {
        let mut blockchain = BlockchainConfig::default();
        blockchain.issuance_writing_block_interval = 0;
        SimConfig {
            server: Some(Server {
                host: "127.0.0.1".into(),
                port: 12101,
                protocol: "http".into(),
                endpoint: Endpoint {
                    host: "127.0.0.1".into(),
                    port: 12101,
                    protocol: "http".into(),
                },
                verification_threads: 1,
                channel_size: 1000,
                stat_timer_in_ms: 5000,
                thread_sleep_time_in_ms: 5000,
                block_fetch_batch_size: 10,
                reconnection_wait_time: 10000,
            }),
            peers: vec![],
            blockchain,
            consensus: ConsensusConfig {
                genesis_period,
                heartbeat_interval: heartbeat,
                prune_after_blocks: 8,
                max_staker_recursions: 3,
                default_social_stake: 0,
                default_social_stake_period: 60,
            },
            spv: false,
            browser: false,
            fetch_url: "http://127.0.0.1:12101/block/".into(),
        }
    }
}

impl Configuration for SimConfig {
    fn get_server_configs(&self) -> Option<&Server> {
        self.server.as_ref()
    }
    fn get_peer_configs(&self) -> &Vec<PeerConfig> {
        &self.peers
    }
    fn get_blockchain_configs(&self) -> &BlockchainConfig {
        &self.blockchain
    }
    fn get_block_fetch_url(&self) -> String {
        self.fetch_url.clone()
    }
    fn is_spv_mode(&self) -> bool {
        self.spv
    }
    fn is_browser(&self) -> bool {
        self.browser
    }
    fn replace(&mut self, config: &dyn Configuration) {
        self.server = config.get_server_configs().cloned();
        self.peers = config.get_peer_configs().clone();
        self.blockchain = config.get_blockchain_configs().clone();
        if let Some(c) = config.get_consensus_config() {
            self.consensus = c.clone();
        }
    }
    fn get_consensus_config(&self) -> Option<&ConsensusConfig> {
        Some(&self.consensus)
    }
}

#[derive(Clone, Default)]
pub struct SimClock {
    pub now: Arc<AtomicU64>,
}

impl SimClock {
    pub fn new(t: Timestamp) -> Self {
        SimClock {
            now: Arc::new(AtomicU64::new(t)),
        }
    }
    pub fn set(&self, t: Timestamp) {
        self.now.store(t, Ordering::SeqCst)
    }
    pub fn now(&self) -> Timestamp {
        self.now.load(Ordering::SeqCst)
    }
    pub fn advance(&self, d: Timestamp) {
        self.now.fetch_add(d, Ordering::SeqCst);
    }
}

impl KeepTime for SimClock {
    fn get_timestamp_in_ms(&self) -> Timestamp {
        self.now.load(Ordering::SeqCst)
    }
}
