//! Ledger scenarios: scripted operations (blocks with described transactions, pool submissions,
//! bundling, wallet spends) executed on a real node; abstract names for keys and outputs.
//! Used by C01 C02 C06 C07 C08 C13 C14 C19.

use std::collections::{BTreeMap, HashMap};

use saito_core::core::consensus::block::{Block, BlockType};
use saito_core::core::consensus::hop::Hop;
use saito_core::core::consensus::slip::{Slip, SlipType};
use saito_core::core::consensus::transaction::{Transaction, TransactionType};
use saito_core::core::defs::{Currency, SaitoHash, SaitoPublicKey, SaitoUTXOSetKey, Timestamp};
use saito_core::core::util::crypto::hash;
use serde::{Deserialize, Serialize};
use serde_json::{json, Value};

use crate::node::{golden_ticket_tx, key, mine_golden_ticket, BlockSpec, Key, Node};
use crate::sim::SimConfig;

pub const T0: Timestamp = 1_700_000_000_000;

#[derive(Clone, Debug, Serialize, Deserialize)]
pub struct TxDesc {
    pub id: String,
    pub signer: String,
    /// names of the outputs consumed
    pub ins: Vec<String>,
    /// (owner key name, amount)
    pub outs: Vec<(String, u64)>,
    /// routing path as key names: [a, b, c] = hops a->b, b->c ; empty = no path
    #[serde(default)]
    pub path: Vec<String>,
    /// adversarial edit applied after honest construction (see apply_tx_edit)
    #[serde(default)]
    pub edit: Option<String>,
    #[serde(default)]
    pub data: Option<String>,
    /// fee left to the block producer; outputs with amount 0 share what remains equally
    #[serde(default)]
    pub fee: u64,
    /// the fee of this transaction is chosen by the runner so that the block's routing work hits a target (C08)
    #[serde(default)]
    pub tune: bool,
}

#[derive(Clone)]
pub struct OutInfo {
    pub slip: Slip,
    pub owner: String,
    pub created_h: u64,
}

pub struct LedgerWorld {
    pub g: u64,
    pub hb: u64,
    pub keys: BTreeMap<String, Key>,
    pub key_names: HashMap<SaitoPublicKey, String>,
    pub genesis: Block,
    /// abstract output name -> real slip (as created) ; filled when blocks are built
    pub outs: HashMap<String, OutInfo>,
    pub names: HashMap<SaitoUTXOSetKey, String>,
    pub issued: u64,
}

pub fn kname(i: usize) -> String {
    format!("k{}", i)
}

impl LedgerWorld {
    pub fn cfg(&self) -> SimConfig {
        let mut c = SimConfig::new(self.g, self.hb);
        c.consensus.prune_after_blocks = 2;
        c
    }

    /// keys: "c" creator, "m" miner, "k1".."kN" users. genesis issuance = list of (key, amount)
    pub async fn new(g: u64, hb: u64, nkeys: usize, issuance: &[(String, u64)]) -> LedgerWorld {
        let mut keys = BTreeMap::new();
        keys.insert("c".to_string(), key(1));
        keys.insert("m".to_string(), key(3));
        for i in 1..=nkeys {
            keys.insert(kname(i), key(10 + i as u32));
        }
        let mut key_names = HashMap::new();
        for (n, k) in keys.iter() {
            key_names.insert(k.public, n.clone());
        }
        let mut cfg = SimConfig::new(g, hb);
        cfg.consensus.prune_after_blocks = 2;
        let creator = keys["c"];
        let mut builder = Node::new(creator, cfg);
        let iss: Vec<(SaitoPublicKey, Currency)> =
            issuance.iter().map(|(k, a)| (keys[k].public, *a)).collect();
        let genesis = builder.create_genesis(&creator, T0, &iss).await;
        let mut w = LedgerWorld {
            g,
            hb,
            keys,
            key_names,
            genesis,
            outs: HashMap::new(),
            names: HashMap::new(),
            issued: issuance.iter().map(|(_, a)| *a).sum(),
        };
        let gb = w.genesis.clone();
        for (ti, tx) in gb.transactions.iter().enumerate() {
            let s = &tx.to[0];
            w.register(format!("g{}", ti), s, 1);
        }
        w
    }

    pub fn register(&mut self, name: String, slip: &Slip, h: u64) -> String {
        let mut s = slip.clone();
        s.generate_utxoset_key();
        let k = s.get_utxoset_key();
        if let Some(n) = self.names.get(&k) {
            return n.clone();
        }
        let owner = self
            .key_names
            .get(&s.public_key)
            .cloned()
            .unwrap_or_else(|| format!("?{}", hex::encode(&s.public_key[0..4])));
        self.names.insert(k, name.clone());
        self.outs.insert(
            name.clone(),
            OutInfo {
                slip: s,
                owner,
                created_h: h,
            },
        );
        name
    }

    pub fn name_of(&self, k: &SaitoUTXOSetKey) -> String {
        self.names
            .get(k)
            .cloned()
            .unwrap_or_else(|| format!("X{}", hex::encode(&k[33..59])))
    }

    pub fn kn(&self, pk: &SaitoPublicKey) -> String {
        self.key_names
            .get(pk)
            .cloned()
            .unwrap_or_else(|| format!("?{}", hex::encode(&pk[0..4])))
    }

    /// Build the real transaction for a description (honest construction, then the edit).
    pub fn make_tx(&self, d: &TxDesc, ts: Timestamp) -> Result<Transaction, String> {
        let signer = self
            .keys
            .get(&d.signer)
            .ok_or_else(|| format!("unknown signer {}", d.signer))?;
        let mut tx = Transaction::default();
        tx.timestamp = ts;
        tx.data = d
            .data
            .clone()
            .unwrap_or_else(|| d.id.clone())
            .into_bytes();
        for n in d.ins.iter() {
            let info = self
                .outs
                .get(n)
                .ok_or_else(|| format!("unknown output {}", n))?;
            tx.add_from_slip(info.slip.clone());
        }
        let total_in: u64 = tx.from.iter().map(|s| s.amount).sum();
        let explicit: u64 = d.outs.iter().map(|(_, a)| *a).sum();
        let zeros = d.outs.iter().filter(|(_, a)| *a == 0).count() as u64;
        let mut rest = 0u64;
        if zeros > 0 {
            if total_in < d.fee + explicit + zeros {
                return Err(format!("inputs {} too small for fee {} + outputs", total_in, d.fee));
            }
            rest = total_in - d.fee - explicit;
        }
        let mut zi = 0u64;
        for (owner, amt) in d.outs.iter() {
            let mut o = Slip::default();
            o.public_key = self.keys.get(owner).ok_or("unknown owner")?.public;
            o.amount = if *amt == 0 && zeros > 0 {
                zi += 1;
                if zi == zeros {
                    rest - (rest / zeros) * (zeros - 1)
                } else {
                    rest / zeros
                }
            } else {
                *amt
            };
            o.slip_type = SlipType::Normal;
            tx.add_to_slip(o);
        }
        // structural edits come before signing, signature edits after
        if let Some(e) = &d.edit {
            self.apply_tx_edit_pre(&mut tx, e)?;
        }
        if d.edit.as_deref() == Some("zero_lead_foreign") {
            // signed by the key of the zero-amount leading input, which owns nothing spent here
            tx.sign(&self.keys["m"].private);
        } else {
            tx.sign(&signer.private);
        }
        if let Some(e) = &d.edit {
            self.apply_tx_edit_post(&mut tx, e, signer)?;
        }
        // routing path
        for i in 0..d.path.len().saturating_sub(1) {
            let from = self.keys.get(&d.path[i]).ok_or("path key")?;
            let to = self.keys.get(&d.path[i + 1]).ok_or("path key")?;
            let hop = Hop::generate(&from.private, &from.public, &to.public, &tx);
            tx.path.push(hop);
        }
        if let Some(e) = &d.edit {
            self.apply_tx_edit_path(&mut tx, e)?;
        }
        Ok(tx)
    }

    fn apply_tx_edit_pre(&self, tx: &mut Transaction, e: &str) -> Result<(), String> {
        match e {
            // retag a user transaction with a privileged type (signed as such)
            "type_fee" => tx.transaction_type = TransactionType::Fee,
            "type_atr" => tx.transaction_type = TransactionType::ATR,
            "type_issuance" => tx.transaction_type = TransactionType::Issuance,
            "type_spv" => tx.transaction_type = TransactionType::SPV,
            "type_vip" => tx.transaction_type = TransactionType::Vip,
            "type_stake" => tx.transaction_type = TransactionType::BlockStake,
            // the first input is repeated
            "dup_input" => {
                let s = tx.from[0].clone();
                tx.from.push(s);
            }
            // inputs claim one unit more than the referenced output holds (non-existent key)
            "inflate_input" => {
                tx.from[0].amount += 1;
                tx.from[0].generate_utxoset_key();
            }
            // an input that never existed
            "phantom_input" => {
                let mut s = tx.from[0].clone();
                s.tx_ordinal += 77;
                s.generate_utxoset_key();
                tx.from.push(s);
            }
            // a zero-amount first input carrying another key than the owner of the value inputs;
            // the transaction is then signed by that other key (see make_tx)
            "zero_lead_foreign" => {
                let mut z = Slip::default();
                z.public_key = self.keys["m"].public;
                z.amount = 0;
                tx.from.insert(0, z);
            }
            // outputs exceed inputs by one
            "overspend" => {
                tx.to[0].amount += 1 + tx.from.iter().map(|s| s.amount).sum::<u64>();
            }
            // two outputs of 2^63 each: their u64 sum wraps to 0
            "wrap_outputs" => {
                let pk = tx.to[0].public_key;
                for _ in 0..2 {
                    let mut o = Slip::default();
                    o.public_key = pk;
                    o.amount = 1u64 << 63;
                    tx.add_to_slip(o);
                }
            }
            _ => {}
        }
        Ok(())
    }

    fn apply_tx_edit_post(&self, tx: &mut Transaction, e: &str, _signer: &Key) -> Result<(), String> {
        match e {
            "forge_sig" => {
                // a signature by a key that owns none of the inputs
                let other = self.keys["m"];
                tx.sign(&other.private);
            }
            "no_sig" => {
                tx.signature = [0; 64];
            }
            "flip_sig" => {
                tx.signature[5] ^= 0x40;
            }
            // change an output after signing
            "tamper_output" => {
                tx.to[0].amount += 1;
            }
            _ => {}
        }
        Ok(())
    }

    fn apply_tx_edit_path(&self, tx: &mut Transaction, e: &str) -> Result<(), String> {
        match e {
            "bad_hop_sig" => {
                if let Some(h) = tx.path.last_mut() {
                    h.sig[3] ^= 0x10;
                }
            }
            "broken_path" => {
                if tx.path.len() >= 2 {
                    let other = self.keys["m"];
                    tx.path[1].from = other.public;
                }
            }
            "self_hop" => {
                if let Some(h) = tx.path.last_mut() {
                    h.to = h.from;
                }
            }
            _ => {}
        }
        Ok(())
    }

    /// abstract description of a real transaction as found in a block
    pub fn describe_tx(&self, tx: &Transaction, auto: bool, desc: Option<&TxDesc>, sigok: bool) -> Value {
        let ins: Vec<Value> = tx
            .from
            .iter()
            .map(|s| {
                json!({"o": self.name_of(&s.get_utxoset_key()), "owner": self.kn(&s.public_key),
                       "amt": amt_json(s.amount), "kind": s.slip_type as u8, "bh": s.block_id})
            })
            .collect();
        let outs: Vec<Value> = tx
            .to
            .iter()
            .map(|s| {
                json!({"o": self.name_of(&s.get_utxoset_key()), "owner": self.kn(&s.public_key),
                       "amt": amt_json(s.amount), "kind": s.slip_type as u8})
            })
            .collect();
        let hops: Vec<Value> = tx
            .path
            .iter()
            .map(|h| json!([self.kn(&h.from), self.kn(&h.to)]))
            .collect();
        // a rebroadcast transaction carries the transaction it rebroadcasts; the payout lottery looks inside
        let inner = if tx.transaction_type == TransactionType::ATR {
            match Transaction::deserialize_from_net(&tx.data) {
                Ok(itx) => json!({"known": true,
                    "from0": itx.from.first().map(|s| self.kn(&s.public_key)).unwrap_or_default(),
                    "hops": itx.path.iter().map(|h| json!([self.kn(&h.from), self.kn(&h.to)])).collect::<Vec<Value>>()}),
                Err(_) => json!({"known": false, "from0": "", "hops": []}),
            }
        } else {
            json!({"known": false, "from0": "", "hops": []})
        };
        json!({
            "src_size": 0,
            "inner": inner,
            "id": desc.map(|d| d.id.clone()).unwrap_or_default(),
            "type": tx.transaction_type as u8,
            "auto": auto,
            "signer": desc.map(|d| d.signer.clone()).unwrap_or_default(),
            "sigok": sigok,
            "edit": desc.and_then(|d| d.edit.clone()).unwrap_or_default(),
            "ins": ins, "outs": outs, "hops": hops,
            "pathok": tx.validate_routing_path(),
        })
    }
}

/// amounts are always limb triples <<hi, mid, lo>> base 2^21 (TLC integers are 32-bit)
pub fn amt_json(a: u64) -> Value {
    let base = 1u64 << 21;
    json!([a >> 42, (a >> 21) % base, a % base])
}

/// whether a described transaction carries a valid signature by its signer (by construction)
pub fn sig_ok_by_construction(d: &TxDesc) -> bool {
    !matches!(
        d.edit.as_deref(),
        Some("forge_sig") | Some("no_sig") | Some("flip_sig") | Some("tamper_output") | Some("zero_lead_foreign")
    )
}

pub fn block_over_wire(b: &Block) -> Block {
    let bytes = b.serialize_for_net(BlockType::Full);
    let mut x = Block::deserialize_from_net(&bytes).expect("decodable");
    x.generate().ok();
    x
}

pub fn short(h: &SaitoHash) -> String {
    hex::encode(&h[0..4])
}

pub fn unique_data(s: &str) -> Vec<u8> {
    hash(s.as_bytes()).to_vec()
}

/// fee for which a path of `hops` hops delivers exactly `target` work (the first hop gets all, each further hop halves, rounding up)
pub fn fee_for_work(target: u64, hops: usize) -> u64 {
    let mut f = target;
    for _ in 1..hops {
        f = f.saturating_mul(2);
    }
    f
}

pub fn gt_for(parent: &Block, miner: &Key, creator: &Key, ts: Timestamp, seed: u64) -> Transaction {
    let (gt, _) = mine_golden_ticket(parent.hash, parent.difficulty, miner.public, seed);
    golden_ticket_tx(&gt, creator, ts)
}

pub fn spec_for(parent: SaitoHash, ts: Timestamp, txs: Vec<Transaction>, gt: Option<Transaction>) -> BlockSpec {
    BlockSpec {
        parent,
        timestamp: ts,
        txs,
        golden_ticket: gt,
    }
}
