pub mod node;
pub mod project;
pub mod sim;
pub mod trace;
pub mod world;
