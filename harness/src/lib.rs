pub mod node;
pub mod project;
pub mod sim;
pub mod trace;
pub mod world;
pub mod ledger;
pub mod ledger_run;
pub mod fullnode;
