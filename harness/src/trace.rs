//! ndjson trace writer + panic capture + watchdog.

use std::fs::File;
use std::io::{BufWriter, Write};
use std::panic::{catch_unwind, AssertUnwindSafe};
use std::sync::atomic::{AtomicU64, Ordering};
use std::sync::{Arc, Mutex};
use std::time::{Duration, Instant};

use serde_json::Value;

pub struct Trace {
    out: BufWriter<File>,
    pub n: u64,
}

impl Trace {
    pub fn create(path: &str) -> Trace {
        Trace {
            out: BufWriter::new(File::create(path).expect("create trace")),
            n: 0,
        }
    }
    pub fn emit(&mut self, mut v: Value) {
        denull(&mut v);
        self.n += 1;
        v["n"] = Value::from(self.n);
        serde_json::to_writer(&mut self.out, &v).unwrap();
        self.out.write_all(b"\n").unwrap();
    }
    pub fn flush(&mut self) {
        self.out.flush().unwrap();
    }
}

static LAST_PANIC: Mutex<Option<String>> = Mutex::new(None);

/// install a panic hook that records message + location instead of printing
pub fn install_panic_recorder() {
    std::panic::set_hook(Box::new(|info| {
        let loc = info
            .location()
            .map(|l| {
                let f = l.file();
                let f = f.rsplit("saito-core/src/").next().unwrap_or(f);
                format!("{}:{}", f, l.line())
            })
            .unwrap_or_else(|| "?".into());
        let msg = if let Some(s) = info.payload().downcast_ref::<&str>() {
            s.to_string()
        } else if let Some(s) = info.payload().downcast_ref::<String>() {
            s.clone()
        } else {
            "?".to_string()
        };
        let mut short: String = msg.chars().take(120).collect();
        short = short.replace('\n', " ");
        if std::env::var("VERIF_DEBUG_PANIC").is_ok() {
            eprintln!("panic at {} | {}", loc, short);
        }
        *LAST_PANIC.lock().unwrap() = Some(format!("{} | {}", loc, short));
    }));
}

/// run `f`, returning Err("file:line | message") if it panicked
pub fn guarded<T>(f: impl FnOnce() -> T) -> Result<T, String> {
    *LAST_PANIC.lock().unwrap() = None;
    match catch_unwind(AssertUnwindSafe(f)) {
        Ok(v) => Ok(v),
        Err(_) => Err(LAST_PANIC
            .lock()
            .unwrap()
            .take()
            .unwrap_or_else(|| "? | ?".into())),
    }
}

/// Watchdog: the worker calls `pet(label)` before every call into the code under test; if no pet
/// arrives for `limit`, the watchdog writes a marker file and terminates the process with code 3.
pub struct Watchdog {
    pub last: Arc<AtomicU64>,
    pub label: Arc<Mutex<String>>,
    start: Instant,
}

impl Watchdog {
    pub fn start(limit: Duration, marker_path: String) -> Watchdog {
        let last = Arc::new(AtomicU64::new(0));
        let label = Arc::new(Mutex::new(String::new()));
        let start = Instant::now();
        let (l2, lab2) = (last.clone(), label.clone());
        std::thread::spawn(move || loop {
            std::thread::sleep(Duration::from_millis(200));
            let now = start.elapsed().as_millis() as u64;
            let then = l2.load(Ordering::SeqCst);
            if then != u64::MAX && now.saturating_sub(then) > limit.as_millis() as u64 {
                let lab = lab2.lock().unwrap().clone();
                let _ = std::fs::write(&marker_path, lab);
                std::process::exit(3);
            }
        });
        Watchdog { last, label, start }
    }
    pub fn pet(&self, label: &str) {
        *self.label.lock().unwrap() = label.to_string();
        self.last
            .store(self.start.elapsed().as_millis() as u64, Ordering::SeqCst);
    }
    pub fn pause(&self) {
        self.last.store(u64::MAX, Ordering::SeqCst);
    }
}

/// TLC's Json module has no null: absent/optional values are logged as ""
pub fn denull(v: &mut Value) {
    match v {
        Value::Null => *v = Value::String(String::new()),
        Value::Array(a) => a.iter_mut().for_each(denull),
        Value::Object(o) => o.values_mut().for_each(denull),
        _ => {}
    }
}

/// minimal stderr logger for debugging (enabled with VERIF_LOG=error|warn|info|debug|trace)
struct StderrLogger;
impl log::Log for StderrLogger {
    fn enabled(&self, _m: &log::Metadata) -> bool {
        true
    }
    fn log(&self, r: &log::Record) {
        eprintln!("[{}] {}: {}", r.level(), r.target(), r.args());
    }
    fn flush(&self) {}
}
static LOGGER: StderrLogger = StderrLogger;
pub fn init_logger_from_env() {
    if let Ok(l) = std::env::var("VERIF_LOG") {
        let lvl = match l.as_str() {
            "error" => log::LevelFilter::Error,
            "warn" => log::LevelFilter::Warn,
            "info" => log::LevelFilter::Info,
            "debug" => log::LevelFilter::Debug,
            _ => log::LevelFilter::Trace,
        };
        let _ = log::set_logger(&LOGGER);
        log::set_max_level(lvl);
    }
}
