//! Executes ledger scenarios step by step on a node under test (+ an optional replica) and
//! records one trace event per operation.

use std::collections::{BTreeMap, BTreeSet, HashMap};

use saito_core::core::consensus::block::Block;
use saito_core::core::consensus::burnfee::BurnFee;
use saito_core::core::consensus::slip::{Slip, SlipType};
use saito_core::core::consensus::transaction::{Transaction, TransactionType};
use saito_core::core::defs::{SaitoHash, SaitoSignature, Timestamp};
use serde::{Deserialize, Serialize};
use serde_json::{json, Value};

use crate::ledger::*;
use crate::node::{AddOutcome, Key, Node};
use crate::trace::{guarded, Trace, Watchdog};

#[derive(Clone, Debug, Serialize, Deserialize)]
pub struct Step {
    pub op: String,
    #[serde(default)]
    pub label: Option<String>,
    #[serde(default)]
    pub parent: Option<String>,
    #[serde(default = "two")]
    pub gap: u64,
    #[serde(default)]
    pub gt: bool,
    #[serde(default)]
    pub txs: Vec<TxDesc>,
    #[serde(default)]
    pub tx: Option<TxDesc>,
    /// block-level edit applied after honest creation (C06 / header edits)
    #[serde(default)]
    pub bedit: Option<String>,
    /// wallet_tx: destination, amount, fee
    #[serde(default)]
    pub to: Option<String>,
    #[serde(default)]
    pub amount: u64,
    #[serde(default)]
    pub fee: u64,
    /// milliseconds after the parent (overrides gap)
    #[serde(default)]
    pub dt: Option<u64>,
    /// routing work of the block relative to the requirement: the transaction marked `tune` gets the fee that
    /// makes the block's work equal needed + tune (C08)
    #[serde(default)]
    pub tune: Option<i64>,
    /// "needed" op: burn fee and elapsed times at which the requirement function is sampled
    #[serde(default)]
    pub bf: u64,
    #[serde(default)]
    pub dts: Vec<u64>,
    /// seed of the golden ticket search (lottery outcome)
    #[serde(default)]
    pub gt_seed: Option<u64>,
    /// wallet_tx: the amount relative to the wallet's available balance ("all", "all-1", "all+1", "half", "one", "zero", "fee-only")
    #[serde(default)]
    pub frac: Option<String>,
    /// build the block but do not hand it to the node (a chain the node joins in the middle)
    #[serde(default)]
    pub hold: bool,
    /// free-form tag copied to the trace (scenario class, expected verdict of the generator ...)
    #[serde(default)]
    pub tag: Option<Value>,
}
fn two() -> u64 {
    2
}

#[derive(Clone, Debug, Serialize, Deserialize)]
pub struct Scenario {
    #[serde(default = "dg")]
    pub g: u64,
    #[serde(default = "dhb")]
    pub hb: u64,
    #[serde(default = "dkeys")]
    pub keys: usize,
    pub issuance: Vec<(String, u64)>,
    #[serde(default = "dnode")]
    pub node_key: String,
    #[serde(default)]
    pub replica: bool,
    pub steps: Vec<Step>,
    #[serde(default)]
    pub tag: Option<Value>,
    /// the node never receives the genesis block (it joins the chain at the first block delivered)
    #[serde(default)]
    pub skip_genesis: bool,
    /// a block-level edit of the genesis block, offered to the fresh node before the honest one
    #[serde(default)]
    pub genesis_edit: Option<String>,
}
fn dg() -> u64 {
    100
}
fn dhb() -> u64 {
    100
}
fn dkeys() -> usize {
    3
}
fn dnode() -> String {
    "k1".to_string()
}

pub struct BuiltBlock {
    pub block: Block,
    pub label: String,
    pub parent: String,
    pub height: u64,
    pub descs: HashMap<SaitoSignature, TxDesc>,
}

pub struct Runner<'a> {
    pub world: LedgerWorld,
    pub node: Node,
    pub replica: Option<Node>,
    pub blocks: BTreeMap<String, BuiltBlock>,
    pub by_hash: HashMap<SaitoHash, String>,
    pub rt: &'a tokio::runtime::Runtime,
    pub scn_no: usize,
    pub step_no: usize,
    pub pool_descs: HashMap<SaitoSignature, TxDesc>,
    /// whether the last block-level edit changed the block at all (e.g. swapping in a one-tx block does not)
    pub last_edit_effective: bool,
}

impl<'a> Runner<'a> {
    pub fn new(rt: &'a tokio::runtime::Runtime, scn: &Scenario, scn_no: usize) -> Runner<'a> {
        let world = rt.block_on(LedgerWorld::new(scn.g, scn.hb, scn.keys, &scn.issuance));
        let nk: Key = world.keys[&scn.node_key];
        let node = Node::new(nk, world.cfg());
        let replica = if scn.replica {
            Some(Node::new(world.keys["m"], world.cfg()))
        } else {
            None
        };
        let mut r = Runner {
            world,
            node,
            replica,
            blocks: BTreeMap::new(),
            by_hash: HashMap::new(),
            rt,
            scn_no,
            step_no: 0,
            pool_descs: HashMap::new(),
            last_edit_effective: false,
        };
        let g = r.world.genesis.clone();
        r.by_hash.insert(g.hash, "b1".into());
        r.blocks.insert(
            "b1".into(),
            BuiltBlock {
                block: g,
                label: "b1".into(),
                parent: "".into(),
                height: 1,
                descs: HashMap::new(),
            },
        );
        r
    }

    /// a fresh node started on a disk image the way the binaries start: ConsensusThread::on_init
    pub fn boot(&self, files: std::collections::BTreeMap<String, Vec<u8>>) -> (String, Option<Node>) {
        let io = crate::sim::SimIo::with_files(files);
        let clock = crate::sim::SimClock::new(T0 + 50_000_000);
        let mut f = crate::fullnode::FullNode::new(self.node.key, self.world.cfg(), io, clock);
        let rt = self.rt;
        let r = guarded(|| {
            rt.block_on(async {
                use saito_core::core::process::process_event::ProcessEvent;
                f.consensus.on_init().await;
            })
        });
        f.consensus.generate_genesis_block = false;
        match r {
            Ok(()) => {
                let crate::fullnode::FullNode { node, .. } = f;
                ("ok".to_string(), Some(node))
            }
            Err(p) => (format!("Panic:{}", p), None),
        }
    }

    pub fn tip_label(&self) -> String {
        let h = self
            .rt
            .block_on(async { self.node.blockchain.read().await.get_latest_block_hash() });
        self.by_hash.get(&h).cloned().unwrap_or_else(|| "?".into())
    }

    fn path_to(&self, label: &str) -> Vec<String> {
        let mut v = vec![];
        let mut x = label.to_string();
        while !x.is_empty() {
            v.push(x.clone());
            x = self.blocks[&x].parent.clone();
        }
        v.reverse();
        v
    }

    /// honest producer for the branch ending in `parent`
    pub fn builder_on(&self, parent: &str) -> Node {
        let mut b = Node::new(self.world.keys["c"], self.world.cfg());
        for l in self.path_to(parent) {
            self.rt.block_on(b.force_wind(self.blocks[&l].block.clone()));
        }
        b
    }

    pub fn ts_after(&self, parent: &str, gap: u64) -> Timestamp {
        // gap is in half-heartbeats so that sub-heartbeat spacing can be expressed: gap 4 = 2 hb
        self.blocks[parent].block.timestamp + gap * self.world.hb / 2
    }

    pub fn build_block(&mut self, st: &Step) -> Result<String, String> {
        let parent = match st.parent.as_deref() {
            None | Some("tip") => self.tip_label(),
            Some(p) => p.to_string(),
        };
        if !self.blocks.contains_key(&parent) {
            return Err(format!("unknown parent {}", parent));
        }
        let label = st
            .label
            .clone()
            .unwrap_or_else(|| format!("b{}", self.blocks.len() + 1));
        let height = self.blocks[&parent].height + 1;
        let ts = match st.dt {
            Some(dt) => self.blocks[&parent].block.timestamp + dt,
            None => self.ts_after(&parent, st.gap * 2),
        };
        let mut builder = self.builder_on(&parent);
        let creator = self.world.keys["c"];
        let mut descs = HashMap::new();
        let mut txs = vec![];
        let needed = {
            let p = &self.blocks[&parent].block;
            BurnFee::return_routing_work_needed_to_produce_block_in_nolan(p.burnfee, ts, p.timestamp, self.world.hb)
        };
        for d in st.txs.iter() {
            let mut d2 = d.clone();
            d2.ins = d2.ins.iter().map(|n| self.resolve(n)).collect();
            if let (true, Some(delta)) = (d2.tune, st.tune) {
                let target = needed as i128 + delta as i128;
                if target < 0 || target > u64::MAX as i128 / 8 {
                    return Err(format!("work target {} out of range", target));
                }
                d2.fee = fee_for_work(target as u64, d2.path.len().saturating_sub(1));
            }
            let tx = self.world.make_tx(&d2, ts)?;
            descs.insert(tx.signature, d2);
            txs.push(tx);
        }
        let pb = self.blocks[&parent].block.clone();
        let gt = if st.gt {
            Some(gt_for(&pb, &self.world.keys["m"], &creator, ts, st.gt_seed.unwrap_or(height)))
        } else {
            None
        };
        let created = self
            .rt
            .block_on(builder.create_block(&creator, spec_for(pb.hash, ts, txs.clone(), gt.clone())));
        let mut block = match created {
            Ok(b) => b,
            Err(e) if e.contains("double-spend") && !txs.is_empty() => {
                // the honest producer refuses to assemble a block that spends an output twice
                // (two transactions, or a transaction and a rebroadcast): build it around a
                // prefix of the transactions and add the others the way a dishonest producer
                // would (fee transaction and header recomputed)
                let mut done = None;
                for k in (0..txs.len()).rev() {
                    let r = self.rt.block_on(builder.create_block(
                        &creator,
                        spec_for(pb.hash, ts, txs[..k].to_vec(), gt.clone()),
                    ));
                    if let Ok(mut b) = r {
                        self.rt.block_on(inject_transactions(&mut b, &txs[k..], &builder, &creator));
                        done = Some(b);
                        break;
                    }
                }
                match done {
                    Some(b) => b,
                    None => return Err(e),
                }
            }
            Err(e) => return Err(e),
        };
        if let Some(e) = &st.bedit {
            let before = block.serialize_for_net(saito_core::core::consensus::block::BlockType::Full);
            apply_block_level_edit(&mut block, e, &creator, &self.world, ts);
            let after = block.serialize_for_net(saito_core::core::consensus::block::BlockType::Full);
            self.last_edit_effective = before != after;
        } else {
            self.last_edit_effective = false;
        }
        self.register_block_outputs(&block, &label, height, &descs);
        self.by_hash.insert(block.hash, label.clone());
        self.blocks.insert(
            label.clone(),
            BuiltBlock {
                block,
                label: label.clone(),
                parent,
                height,
                descs,
            },
        );
        Ok(label)
    }

    /// "atr:<name>" refers to the rebroadcast copy of <name>
    pub fn resolve(&self, n: &str) -> String {
        n.to_string()
    }

    pub fn register_block_outputs(
        &mut self,
        block: &Block,
        label: &str,
        height: u64,
        descs: &HashMap<SaitoSignature, TxDesc>,
    ) {
        let mut atr_i = 0;
        for tx in block.transactions.iter() {
            let prefix = if let Some(d) = desc_for(tx, descs) {
                d.id.clone()
            } else {
                match tx.transaction_type {
                    TransactionType::Fee => format!("{}.fee", label),
                    TransactionType::ATR => {
                        atr_i += 1;
                        // name the copy after the original it rebroadcasts
                        let orig = tx
                            .from
                            .iter()
                            .find(|s| s.slip_type != SlipType::Bound)
                            .map(|s| {
                                let mut o = s.clone();
                                // the original key carries the original amount: search by position
                                o.generate_utxoset_key();
                                // outputs of sibling blocks can sit at the same position: the amount is part of the
                                // identity, and among equals the smallest name is taken so that runs are reproducible
                                let mut cands: Vec<&String> = self
                                    .world
                                    .outs
                                    .iter()
                                    .filter(|(_, i)| {
                                        i.slip.block_id == s.block_id
                                            && i.slip.tx_ordinal == s.tx_ordinal
                                            && i.slip.slip_index == s.slip_index
                                            && i.slip.public_key == s.public_key
                                            && i.slip.amount == s.amount
                                    })
                                    .map(|(n, _)| n)
                                    .collect();
                                cands.sort();
                                cands.first().map(|n| (*n).clone()).unwrap_or_else(|| format!("unk{}", atr_i))
                            })
                            .unwrap_or_else(|| format!("unk{}", atr_i));
                        format!("atr:{}@{}", orig, label)
                    }
                    TransactionType::GoldenTicket => format!("{}.gt", label),
                    _ => format!("{}.x{}", label, atr_i),
                }
            };
            for (si, s) in tx.to.iter().enumerate() {
                if s.amount > 0 {
                    self.world.register(format!("{}.{}", prefix, si), s, height);
                }
            }
        }
    }

    pub fn block_event(&self, label: &str, res: &str, who: &str, extra: Value) -> Value {
        let bb = &self.blocks[label];
        let b = &bb.block;
        let txs: Vec<Value> = b
            .transactions
            .iter()
            .map(|tx| {
                let d = desc_for(tx, &bb.descs);
                let auto = d.is_none();
                let sigok = d.map(sig_ok_by_construction).unwrap_or(true);
                let mut v = self.world.describe_tx(tx, auto, d, sigok);
                // a rebroadcast is charged by the size of the transaction (of the leaving block) whose output it carries on
                let mut src_size = 0u64;
                if tx.transaction_type == TransactionType::ATR {
                    if let Some(inp) = tx.from.iter().find(|s| s.slip_type != SlipType::Bound) {
                        for cand in self.blocks.values() {
                            if cand.block.id != inp.block_id {
                                continue;
                            }
                            if let Some(src) = cand.block.transactions.get(inp.tx_ordinal as usize) {
                                let hit = src.to.iter().any(|o| o.public_key == inp.public_key && o.slip_index == inp.slip_index && o.amount == inp.amount);
                                if hit {
                                    src_size = src.get_serialized_size() as u64;
                                    break;
                                }
                            }
                        }
                    }
                }
                v["src_size"] = json!(src_size);
                v
            })
            .collect();
        let pb = self.blocks.get(&bb.parent).map(|p| &p.block);
        let (needed, dt, pbf) = match pb {
            Some(p) => (
                BurnFee::return_routing_work_needed_to_produce_block_in_nolan(
                    p.burnfee,
                    b.timestamp,
                    p.timestamp,
                    self.world.hb,
                ),
                b.timestamp.saturating_sub(p.timestamp),
                p.burnfee,
            ),
            None => (0, 0, 0),
        };
        json!({
            "ev": "Block", "scn": self.scn_no, "i": self.step_no, "who": who,
            "label": label, "parent": bb.parent, "h": bb.height, "res": res,
            "gt": b.has_golden_ticket, "txs": txs,
            "creator": self.world.kn(&b.creator), "hb": self.world.hb,
            "gtkey": b.transactions.iter().find(|t| t.transaction_type == TransactionType::GoldenTicket)
                .map(|t| if t.data.len() == 97 { self.world.kn(&t.data[64..97].try_into().unwrap()) } else { "?".to_string() })
                .unwrap_or_default(),
            "hdr": {"treasury": amt_json(b.treasury), "graveyard": amt_json(b.graveyard),
                    "unpaid": amt_json(b.previous_block_unpaid), "fees": amt_json(b.total_fees),
                    "fees_new": amt_json(b.total_fees_new), "fees_atr": amt_json(b.total_fees_atr),
                    "payout_mining": amt_json(b.total_payout_mining), "payout_routing": amt_json(b.total_payout_routing),
                    "payout_treasury": amt_json(b.total_payout_treasury), "payout_graveyard": amt_json(b.total_payout_graveyard),
                    "payout_atr": amt_json(b.total_payout_atr),
                    "bf": amt_json(b.burnfee), "work": amt_json(b.total_work), "needed": amt_json(needed),
                    "dt": dt, "pbf": amt_json(pbf), "difficulty": b.difficulty, "afpb": b.avg_fee_per_byte},
            "st": self.state(&self.node),
            "x": extra,
        })
    }

    pub fn state(&self, node: &Node) -> Value {
        self.rt.block_on(async {
            let bc = node.blockchain.read().await;
            let mp = node.mempool.read().await;
            let w = node.wallet.read().await;
            let mut utxo = BTreeSet::new();
            for (k, v) in bc.utxoset.iter() {
                let s = saito_core::core::consensus::slip::Slip::parse_slip_from_utxokey(k).unwrap();
                utxo.insert((
                    self.world.name_of(k),
                    self.world.kn(&s.public_key),
                    s.amount,
                    s.block_id,
                    s.slip_type as u8,
                    *v,
                ));
            }
            let utxo: Vec<Value> = utxo
                .into_iter()
                .map(|(n, o, a, bh, k, v)| json!({"o": n, "owner": o, "amt": amt_json(a), "bh": bh, "kind": k, "sp": v}))
                .collect();
            let tip = self
                .by_hash
                .get(&bc.get_latest_block_hash())
                .cloned()
                .unwrap_or_else(|| "?".into());
            let mut pool: Vec<String> = mp
                .transactions
                .keys()
                .map(|s| {
                    self.pool_descs
                        .get(s)
                        .map(|d| d.id.clone())
                        .unwrap_or_else(|| format!("?{}", hex::encode(&s[0..4])))
                })
                .collect();
            pool.sort();
            let mut reserved: Vec<String> = mp.utxo_map.keys().map(|k| self.world.name_of(k)).collect();
            reserved.sort();
            let mut wun: Vec<String> = w.unspent_slips.iter().map(|k| self.world.name_of(k)).collect();
            wun.sort();
            let mut wsl: Vec<Value> = w
                .slips
                .iter()
                .map(|(k, s)| json!({"o": self.world.name_of(k), "amt": amt_json(s.amount), "spent": s.spent, "lc": s.lc, "bh": s.block_id}))
                .collect();
            wsl.sort_by_key(|v| v["o"].as_str().unwrap().to_string());
            // the by-height longest-chain index as labels (heights 1..tip)
            let mut lc: Vec<String> = vec![];
            for hgt in 1..=bc.get_latest_block_id() {
                lc.push(match bc.blockring.get_longest_chain_block_hash_at_block_id(hgt) {
                    Some(hh) => self.by_hash.get(&hh).cloned().unwrap_or_else(|| "?".into()),
                    None => "-".into(),
                });
            }
            json!({"tip": tip, "tiph": bc.get_latest_block_id(), "lc": lc, "utxo": utxo, "pool": pool,
                   "reserved": reserved, "work": amt_json(mp.get_routing_work_available()),
                   "wallet": {"unspent": wun, "slips": wsl, "balance": amt_json(w.get_available_balance()),
                              "pending": w.pending_txs.len()}})
        })
    }

    pub fn deliver(&mut self, label: &str, wd: &Watchdog) -> (String, Option<String>) {
        let b = block_over_wire(&self.blocks[label].block);
        wd.pet(&format!("scn {} step {} add {}", self.scn_no, self.step_no, label));
        let rt = self.rt;
        let node = &mut self.node;
        let r = guarded(|| rt.block_on(node.add_block(b)));
        wd.pause();
        let res = match r {
            Ok(o) => o.name(),
            Err(p) => format!("Panic:{}", p),
        };
        let mut rres = None;
        if let Some(rep) = self.replica.as_mut() {
            let b2 = block_over_wire(&self.blocks[label].block);
            wd.pet(&format!("scn {} step {} replica add {}", self.scn_no, self.step_no, label));
            let r2 = guarded(|| rt.block_on(rep.add_block(b2)));
            wd.pause();
            rres = Some(match r2 {
                Ok(o) => o.name(),
                Err(p) => format!("Panic:{}", p),
            });
        }
        let _ = AddOutcome::Invalid;
        (res, rres)
    }
}

/// add transactions to an honestly created block and redo what Block::create does after the
/// transaction list is fixed: fee transaction, merkle root, signature
pub async fn inject_transactions(block: &mut Block, extra: &[Transaction], builder: &Node, creator: &Key) {
    let had_fee = block
        .transactions
        .last()
        .map(|t| t.transaction_type == TransactionType::Fee)
        .unwrap_or(false);
    if had_fee {
        block.transactions.pop();
    }
    // keep rebroadcasts (if any) behind the user transactions
    let first_atr = block
        .transactions
        .iter()
        .position(|t| t.transaction_type == TransactionType::ATR)
        .unwrap_or(block.transactions.len());
    for (i, tx) in extra.iter().enumerate() {
        let mut t = tx.clone();
        t.generate(&creator.public, 0, 0);
        block.transactions.insert(first_atr + i, t);
    }
    if had_fee {
        let configs = builder.configs.read().await;
        let bc = builder.blockchain.read().await;
        let cv = block
            .generate_consensus_values(&bc, &builder.storage, &*configs)
            .await;
        if let Some(mut fee_tx) = cv.fee_transaction {
            fee_tx.generate_hash_for_signature();
            fee_tx.sign(&creator.private);
            block.transactions.push(fee_tx);
        }
    }
    block.transaction_map.clear();
    block.created_hashmap_of_slips_spent_this_block = true; // as after Block::create
    block.merkle_root = block.generate_merkle_root(false, false);
    block.generate_pre_hash();
    block.sign(&creator.private);
    let _ = block.generate();
}

/// the scenario description of a transaction found in a block; rebroadcast transactions carry
/// the signature of the transaction they rebroadcast, so the type is part of the match
pub fn desc_for<'a>(tx: &Transaction, descs: &'a HashMap<SaitoSignature, TxDesc>) -> Option<&'a TxDesc> {
    let d = descs.get(&tx.signature)?;
    if matches!(tx.transaction_type, TransactionType::ATR | TransactionType::Fee)
        && !matches!(d.edit.as_deref(), Some("type_atr") | Some("type_fee"))
    {
        return None;
    }
    Some(d)
}

pub fn apply_block_level_edit(block: &mut Block, e: &str, creator: &Key, _w: &LedgerWorld, _ts: Timestamp) {
    // edits of the transaction list that keep the signed header (C06)
    match e {
        "drop_last_tx" => {
            block.transactions.pop();
        }
        "dup_first_tx" => {
            let t = block.transactions[0].clone();
            block.transactions.push(t);
        }
        "swap_txs" => {
            if block.transactions.len() >= 2 {
                block.transactions.swap(0, 1);
            }
        }
        "tamper_tx_data" => {
            block.transactions[0].data.push(7);
        }
        "zero_root_drop_tx" => {
            block.merkle_root = [0; 32];
            block.transactions.pop();
        }
        "drop_all_txs" => {
            block.transactions.clear();
        }
        "flip_block_sig" => {
            block.signature[11] ^= 0x04;
        }
        "resign_other_key" => {
            let other = crate::node::key(99);
            block.sign(&other.private);
        }
        "bump_treasury_resign" => {
            block.treasury += 1;
            block.generate_pre_hash();
            block.sign(&creator.private);
        }
        "bump_burnfee_resign" => {
            block.burnfee += 1;
            block.generate_pre_hash();
            block.sign(&creator.private);
        }
        "append_uncounted_tx" => {
            // a valid zero-value transaction that claims to stand for no transaction at all (txs_replacements = 0),
            // appended under the signed header: the transaction list changed, the block must be refused
            let k = &_w.keys["k2"];
            let mut t = Transaction::default();
            t.timestamp = block.timestamp;
            t.txs_replacements = 0;
            let mut i = Slip::default();
            i.public_key = k.public;
            t.add_from_slip(i);
            let mut o = Slip::default();
            o.public_key = k.public;
            t.add_to_slip(o);
            t.sign(&k.private);
            block.transactions.push(t);
        }
        "atr_redirect" => {
            // the first rebroadcast pays a key that never owned the output; root and signature are redone by the creator
            let mut done = false;
            for t in block.transactions.iter_mut() {
                if t.transaction_type != TransactionType::ATR {
                    continue;
                }
                if let Some(o) = t.to.iter_mut().find(|s| s.amount > 0 && s.slip_type != SlipType::Bound) {
                    let other = if o.public_key == _w.keys["k1"].public { _w.keys["k2"].public } else { _w.keys["k1"].public };
                    o.public_key = other;
                    done = true;
                }
                if done {
                    t.generate_hash_for_signature();
                    break;
                }
            }
            if done {
                block.merkle_root = block.generate_merkle_root(false, false);
                block.generate_pre_hash();
                block.sign(&creator.private);
            }
        }
        "bump_timestamp_nosign" => {
            block.timestamp += 1;
        }
        "bump_fees_unsigned_field" => {
            block.total_fees += 1;
        }
        _ => {}
    }
    // derived, unsigned metadata is regenerated the way a receiver would
    block.transaction_map.clear();
    block.created_hashmap_of_slips_spent_this_block = false;
    block.slips_spent_this_block.clear();
    let _ = block.generate();
}

pub fn run_scenario(
    rt: &tokio::runtime::Runtime,
    scn: &Scenario,
    scn_no: usize,
    trace: &mut Trace,
    wd: &Watchdog,
) {
    let mut r = Runner::new(rt, scn, scn_no);
    trace.emit(json!({"ev": "Reset", "scn": scn_no, "g": scn.g, "hb": scn.hb,
        "issued": amt_json(r.world.issued), "node_key": scn.node_key, "tag": scn.tag}));
    if let Some(e) = &scn.genesis_edit {
        // an edited copy of the genesis block is what the fresh node sees first
        let creator = r.world.keys["c"];
        let mut g = r.world.genesis.clone();
        let before = g.serialize_for_net(saito_core::core::consensus::block::BlockType::Full);
        apply_block_level_edit(&mut g, e, &creator, &r.world, T0);
        if before != g.serialize_for_net(saito_core::core::consensus::block::BlockType::Full) {
            r.by_hash.entry(g.hash).or_insert_with(|| "b1x".into());
            r.blocks.insert("b1x".into(), BuiltBlock { block: g, label: "b1x".into(), parent: "".into(), height: 1, descs: HashMap::new() });
            let (res, rres) = r.deliver("b1x", wd);
            let ev = r.block_event("b1x", &res, "builder", json!({"replica": rres, "tag": "genesis-edit", "bedit": e, "redelivery": false}));
            trace.emit(ev);
        }
    }
    if !scn.skip_genesis {
        // the node starts from the genesis block
        let (res, rres) = r.deliver("b1", wd);
        let ev = r.block_event("b1", &res, "builder", json!({"replica": rres, "tag": null, "bedit": null, "redelivery": false}));
        trace.emit(ev);
    }
    for (i, st) in scn.steps.iter().enumerate() {
        r.step_no = i + 1;
        match st.op.as_str() {
            // a panic while assembling a scenario block (the builder is asked to extend something it cannot) is
            // not the node's: the step is skipped
            "block" => match guarded(|| r.build_block(st)).unwrap_or_else(|p| Err(format!("builder panicked: {}", p))) {
                Ok(label) if st.hold => {
                    trace.emit(json!({"ev": "Held", "scn": scn_no, "i": r.step_no, "label": label}));
                }
                Ok(label) => {
                    let (res, rres) = r.deliver(&label, wd);
                    let bedit = if r.last_edit_effective { st.bedit.clone() } else { None };
                    let ev = r.block_event(&label, &res, "builder",
                        json!({"replica": rres, "tag": st.tag, "bedit": bedit, "redelivery": false}));
                    trace.emit(ev);
                    if res.starts_with("Panic") {
                        break;
                    }
                }
                Err(e) => {
                    trace.emit(json!({"ev": "Skip", "scn": scn_no, "i": r.step_no, "why": e}));
                }
            },
            "wallet_tx" => {
                // the node's own wallet builds, signs and submits a payment (C19)
                let pre = r.state(&r.node);
                let to = r.world.keys[st.to.as_deref().unwrap_or("k2")].public;
                let node = &r.node;
                let nk = node.key;
                let (g, frac, amount0, fee) = (scn.g, st.frac.clone().unwrap_or_default(), st.amount, st.fee);
                wd.pet(&format!("scn {} step {} wallet_tx", scn_no, r.step_no));
                let built = guarded(|| {
                    rt.block_on(async {
                        let latest = node.blockchain.read().await.get_latest_block_id();
                        let mut w = node.wallet.write().await;
                        let bal = w.get_available_balance();
                        let amount = match frac.as_str() {
                            "all" => bal.saturating_sub(fee),
                            "all-1" => bal.saturating_sub(fee).saturating_sub(1),
                            "all+1" => bal.saturating_sub(fee) + 1,
                            "half" => bal / 2,
                            "one" => 1,
                            "zero" | "fee-only" => 0,
                            _ => amount0,
                        };
                        let r = Transaction::create(&mut w, to, amount, fee, false, None, latest, g);
                        (bal, amount, r.map(|mut t| {
                            t.timestamp = T0 + 9_000_000 + latest;
                            t.generate(&nk.public, 0, 0);
                            t.sign(&nk.private);
                            t
                        }))
                    })
                });
                wd.pause();
                match built {
                    Err(p) => {
                        trace.emit(json!({"ev": "WalletTx", "scn": scn_no, "i": r.step_no, "res": format!("Panic:{}", p), "built": false,
                            "pre": pre, "st": r.state(&r.node), "tag": st.tag}));
                        break;
                    }
                    Ok((bal, amount, Err(_))) => {
                        trace.emit(json!({"ev": "WalletTx", "scn": scn_no, "i": r.step_no, "res": "Refused", "built": false, "bal": amt_json(bal),
                            "amount": amt_json(amount), "fee": amt_json(fee), "pre": pre, "st": r.state(&r.node), "tag": st.tag}));
                    }
                    Ok((bal, amount, Ok(tx))) => {
                        let id = format!("w{}_{}", scn_no, r.step_no);
                        let d = TxDesc { id: id.clone(), signer: scn.node_key.clone(), ins: vec![], outs: vec![], path: vec![], edit: None, data: None,
                                         fee: 0, tune: false };
                        let sig = tx.signature;
                        // the signature does not cover where an input lives, only its owner, amount and type: two
                        // payments that differ only in which equal-valued output they spend have ONE signature,
                        // and the pool (keyed by signature) takes the second for a copy of the first
                        let collision = r.pool_descs.contains_key(&sig)
                            && rt.block_on(async { r.node.mempool.read().await.transactions.contains_key(&sig) });
                        if !collision {
                            r.pool_descs.insert(sig, d.clone());
                        }
                        let after_build = r.state(&r.node);
                        let node = &r.node;
                        let txc = tx.clone();
                        let res = guarded(|| {
                            rt.block_on(async {
                                let bc = node.blockchain.read().await;
                                let mut mp = node.mempool.write().await;
                                mp.add_transaction_if_validates(txc, &bc).await;
                                mp.transactions.contains_key(&sig)
                            })
                        });
                        let resn = match res {
                            Ok(true) if collision => "Duplicate".to_string(),
                            Ok(true) => "Pooled".to_string(),
                            Ok(false) => "Rejected".to_string(),
                            Err(p) => format!("Panic:{}", p),
                        };
                        let desc = r.world.describe_tx(&tx, false, Some(&d), true);
                        trace.emit(json!({"ev": "WalletTx", "scn": scn_no, "i": r.step_no, "res": resn, "built": true, "tx": desc, "bal": amt_json(bal),
                            "amount": amt_json(amount), "fee": amt_json(fee), "pre": pre, "after_build": after_build, "st": r.state(&r.node), "tag": st.tag}));
                    }
                }
            }
            "nft_create" => {
                // the node's wallet turns one of its outputs into an NFT (bound slip, payload, bound slip) held by `to`
                let pre = r.state(&r.node);
                let to = r.world.keys[st.to.as_deref().unwrap_or("k1")].public;
                let node = &r.node;
                let nk = node.key;
                let g = scn.g;
                wd.pet(&format!("scn {} step {} nft_create", scn_no, r.step_no));
                let built = guarded(|| {
                    rt.block_on(async {
                        let latest = node.blockchain.read().await.get_latest_block_id();
                        let mut w = node.wallet.write().await;
                        // the largest usable slip of the wallet provides the identity of the NFT
                        let pick = w
                            .unspent_slips
                            .iter()
                            .filter_map(|k| w.slips.get(k))
                            .filter(|s| s.block_id + g > latest + 2)
                            .max_by_key(|s| s.amount)
                            .map(|s| (s.amount, s.block_id, s.tx_ordinal, s.slip_index));
                        match pick {
                            None => Err("no usable slip".to_string()),
                            Some((amt, bid, ord, idx)) => {
                                let deposit = amt - amt / 4;
                                w.create_bound_transaction(amt, bid, ord, idx as u64, deposit, vec![7, 7, 7], &to, None, latest, g, "harness".to_string())
                                    .await
                                    .map(|mut t| {
                                        t.timestamp = T0 + 9_500_000 + latest;
                                        t.generate(&nk.public, 0, 0);
                                        t.sign(&nk.private);
                                        t
                                    })
                                    .map_err(|e| format!("{:?}", e))
                            }
                        }
                    })
                });
                wd.pause();
                match built {
                    Err(p) => {
                        trace.emit(json!({"ev": "Nft", "scn": scn_no, "i": r.step_no, "res": format!("Panic:{}", p), "built": false, "pre": pre,
                            "st": r.state(&r.node), "tag": st.tag}));
                        break;
                    }
                    Ok(Err(e)) => {
                        trace.emit(json!({"ev": "Skip", "scn": scn_no, "i": r.step_no, "why": format!("nft not built: {}", e)}));
                    }
                    Ok(Ok(tx)) => {
                        let id = format!("nft{}_{}", scn_no, r.step_no);
                        let d = TxDesc { id: id.clone(), signer: scn.node_key.clone(), ins: vec![], outs: vec![], path: vec![], edit: None, data: None,
                                         fee: 0, tune: false };
                        let sig = tx.signature;
                        r.pool_descs.insert(sig, d.clone());
                        let node = &r.node;
                        let txc = tx.clone();
                        let res = guarded(|| {
                            rt.block_on(async {
                                let bc = node.blockchain.read().await;
                                let mut mp = node.mempool.write().await;
                                mp.add_transaction_if_validates(txc, &bc).await;
                                mp.transactions.contains_key(&sig)
                            })
                        });
                        let resn = match res {
                            Ok(true) => "Pooled".to_string(),
                            Ok(false) => "Rejected".to_string(),
                            Err(p) => format!("Panic:{}", p),
                        };
                        let desc = r.world.describe_tx(&tx, false, Some(&d), true);
                        trace.emit(json!({"ev": "Nft", "scn": scn_no, "i": r.step_no, "res": resn, "built": true, "tx": desc, "pre": pre,
                            "st": r.state(&r.node), "tag": st.tag}));
                    }
                }
            }
            "restart" => {
                // clean shutdown and start from the block files (C12)
                let pre = r.state(&r.node);
                let files = r.node.io.files();
                // the highest block the disk holds when the node goes down
                let disk_top = r
                    .blocks
                    .values()
                    .filter(|b| {
                        let suffix = format!("-{}.sai", hex::encode(b.block.hash));
                        files.keys().any(|k| k.ends_with(&suffix))
                    })
                    .map(|b| b.block.id)
                    .max()
                    .unwrap_or(0);
                wd.pet(&format!("scn {} step {} restart", scn_no, r.step_no));
                let (res, booted) = r.boot(files);
                wd.pause();
                if let Some(n) = booted {
                    r.node = n;
                }
                // heights at which the disk holds more than one block (a competing branch)
                let competing = {
                    let files = r.node.io.files();
                    let mut per_id: std::collections::BTreeMap<u64, usize> = Default::default();
                    for b in r.blocks.values() {
                        let suffix = format!("-{}.sai", hex::encode(b.block.hash));
                        if files.keys().any(|k| k.ends_with(&suffix)) {
                            *per_id.entry(b.block.id).or_default() += 1;
                        }
                    }
                    per_id.values().filter(|n| **n > 1).count()
                };
                trace.emit(json!({"ev": "Restart", "scn": scn_no, "i": r.step_no, "res": res, "pre": pre, "st": r.state(&r.node), "tag": st.tag,
                    "competing": competing, "disk_top": disk_top}));
                if res != "ok" {
                    break;
                }
            }
            "crashscan" => {
                // the process dies after any prefix of the storage operations so far, the last write complete,
                // absent or torn; each image is booted on a scratch node (the scenario's node is not touched)
                let hist = r.node.io.history();
                let pretip = r.tip_label();
                let mut cuts: Vec<usize> = (0..=hist.len()).collect();
                let limit = st.amount.max(12) as usize;
                if cuts.len() > limit {
                    // the most recent operations and an even spread over the older ones
                    let recent: Vec<usize> = cuts[cuts.len() - limit / 2..].to_vec();
                    let stride = (cuts.len() - limit / 2) / (limit / 2).max(1);
                    let mut older: Vec<usize> = (0..cuts.len() - limit / 2).step_by(stride.max(1)).collect();
                    older.extend(recent);
                    cuts = older;
                }
                for cut in cuts {
                    let mut variants: Vec<(String, Option<usize>)> = vec![("complete".into(), None)];
                    if cut > 0 && hist[cut - 1].0 && hist[cut - 1].1.ends_with(".sai") {
                        let len = hist[cut - 1].2.len();
                        // byte classes of a torn block file: nothing, inside the header, exactly the header, inside the
                        // transactions, one byte short
                        for (name, k) in [("empty", 0usize), ("in-header", 120), ("header", 389), ("in-tx", 389 + (len.saturating_sub(389)) / 2), ("short", len.saturating_sub(1))] {
                            if k < len {
                                variants.push((name.to_string(), Some(k)));
                            }
                        }
                    }
                    for (torn, keep) in variants {
                        // the disk as it was when this node instance started, then the operations since
                        let mut files = r.node.io.base();
                        for (idx, (is_write, key, data)) in hist[..cut].iter().enumerate() {
                            if *is_write {
                                let d = if idx + 1 == cut { keep.map(|k| data[..k].to_vec()).unwrap_or_else(|| data.clone()) } else { data.clone() };
                                files.insert(key.clone(), d);
                            } else {
                                files.remove(key);
                            }
                        }
                        let nblocks = files.iter().filter(|(k, _)| k.ends_with(".sai")).count();
                        // heights at which the image holds more than one block (a competing branch)
                        let competing = {
                            let mut per_id: std::collections::BTreeMap<u64, usize> = Default::default();
                            for b in r.blocks.values() {
                                let suffix = format!("-{}.sai", hex::encode(b.block.hash));
                                if files.keys().any(|k| k.ends_with(&suffix)) {
                                    *per_id.entry(b.block.id).or_default() += 1;
                                }
                            }
                            per_id.values().filter(|n| **n > 1).count()
                        };
                        // (the decoder is code under test: a panic in it must not take the harness down)
                        let intact = files
                            .iter()
                            .filter(|(k, v)| k.ends_with(".sai") && guarded(|| Block::deserialize_from_net(v).is_ok()).unwrap_or(false))
                            .count();
                        wd.pet(&format!("scn {} step {} crash image cut {} {}", scn_no, r.step_no, cut, torn));
                        let (res, booted) = r.boot(files);
                        let mut ext = "none".to_string();
                        let mut stv = json!({});
                        if let Some(mut n) = booted {
                            stv = r.state(&n);
                            let tipl = stv["tip"].as_str().unwrap_or("?").to_string();
                            if r.blocks.contains_key(&tipl) {
                                // the restarted node must be able to go on: one more honest block on its tip
                                let pb = r.blocks[&tipl].block.clone();
                                let ts = pb.timestamp + 4 * r.world.hb;
                                let creator = r.world.keys["c"];
                                let gt = gt_for(&pb, &r.world.keys["m"], &creator, ts, 4242);
                                let rt2 = r.rt;
                                let built = guarded(|| {
                                    let mut b = r.builder_on(&tipl);
                                    rt2.block_on(b.create_block(&creator, spec_for(pb.hash, ts, vec![], Some(gt))))
                                });
                                ext = match built {
                                    Ok(Ok(nb)) => {
                                        let wire = block_over_wire(&nb);
                                        match guarded(|| rt2.block_on(n.add_block(wire))) {
                                            Ok(o) => o.name(),
                                            Err(p) => format!("Panic:{}", p),
                                        }
                                    }
                                    Ok(Err(e)) => format!("unbuildable:{}", e),
                                    Err(p) => format!("builder-panicked:{}", p),
                                };
                            }
                        }
                        wd.pause();
                        trace.emit(json!({"ev": "Crash", "scn": scn_no, "i": r.step_no, "cut": cut, "of": hist.len(), "torn": torn, "res": res,
                            "pretip": pretip, "st": stv, "extend": ext, "nblocks": nblocks, "intact": intact, "competing": competing, "tag": st.tag}));
                    }
                }
            }
            "needed" => {
                // samples of the requirement function itself, in ascending elapsed time
                for dt in st.dts.iter() {
                    let (bf, hb, dt) = (st.bf, scn.hb, *dt);
                    let res = guarded(|| BurnFee::return_routing_work_needed_to_produce_block_in_nolan(bf, dt, 0, hb));
                    let (needed, resn) = match res {
                        Ok(n) => (n, "ok".to_string()),
                        Err(p) => (0, format!("Panic:{}", p)),
                    };
                    trace.emit(json!({"ev": "Needed", "scn": scn_no, "i": r.step_no, "bf": amt_json(bf), "dt": amt_json(dt),
                        "hbl": amt_json(hb), "needed": amt_json(needed), "res": resn}));
                }
            }
            "redeliver" => {
                let label = st.label.clone().unwrap_or_default();
                if r.blocks.contains_key(&label) {
                    let (res, rres) = r.deliver(&label, wd);
                    let ev = r.block_event(&label, &res, "builder", json!({"replica": rres, "tag": st.tag, "bedit": null, "redelivery": true}));
                    trace.emit(ev);
                }
            }
            "submit" => {
                let d = st.tx.clone().expect("submit needs tx");
                let tiph = rt.block_on(async { r.node.blockchain.read().await.get_latest_block_id() });
                let _ = tiph;
                let tipl = r.tip_label();
                if !r.blocks.contains_key(&tipl) {
                    trace.emit(json!({"ev": "Skip", "scn": scn_no, "i": r.step_no, "why": "unknown tip"}));
                    continue;
                }
                let ts = r.blocks[&tipl].block.timestamp + 1;
                match r.world.make_tx(&d, ts) {
                    Ok(tx) => {
                        let sig = tx.signature;
                        r.pool_descs.insert(sig, d.clone());
                        wd.pet(&format!("scn {} step {} submit", scn_no, r.step_no));
                        let node = &r.node;
                        let txc = tx.clone();
                        let res = guarded(|| {
                            rt.block_on(async {
                                let bc = node.blockchain.read().await;
                                let mut mp = node.mempool.write().await;
                                mp.add_transaction_if_validates(txc, &bc).await;
                                mp.transactions.contains_key(&sig)
                            })
                        });
                        wd.pause();
                        let resn = match res {
                            Ok(true) => "Pooled".to_string(),
                            Ok(false) => "Rejected".to_string(),
                            Err(p) => format!("Panic:{}", p),
                        };
                        let mut txg = tx.clone();
                        txg.generate(&r.node.key.public, 0, 0);
                        let desc = r.world.describe_tx(&txg, false, Some(&d), sig_ok_by_construction(&d));
                        trace.emit(json!({"ev": "Submit", "scn": scn_no, "i": r.step_no, "tx": desc,
                            "res": resn, "st": r.state(&r.node), "tag": st.tag}));
                    }
                    Err(e) => trace.emit(json!({"ev": "Skip", "scn": scn_no, "i": r.step_no, "why": e})),
                }
            }
            "bundle" => {
                // the node's own producer
                let tipl = r.tip_label();
                if !r.blocks.contains_key(&tipl) {
                    trace.emit(json!({"ev": "Skip", "scn": scn_no, "i": r.step_no, "why": "unknown tip"}));
                    continue;
                }
                let ts = r.ts_after(&tipl, st.gap * 2);
                let pb = r.blocks[&tipl].block.clone();
                let nk = r.node.key;
                let gt = if st.gt {
                    Some(gt_for(&pb, &r.world.keys["m"], &nk, ts, r.step_no as u64))
                } else {
                    None
                };
                wd.pet(&format!("scn {} step {} bundle", scn_no, r.step_no));
                let node = &r.node;
                let pre = r.state(&r.node);
                let res = guarded(|| {
                    rt.block_on(async {
                        let configs = node.configs.read().await;
                        let bc = node.blockchain.read().await;
                        let mut mp = node.mempool.write().await;
                        mp.bundle_block(&bc, ts, gt, &*configs, &node.storage).await
                    })
                });
                wd.pause();
                match res {
                    Ok(Some(block)) => {
                        let label = st.label.clone().unwrap_or_else(|| format!("n{}", r.blocks.len() + 1));
                        let height = r.blocks[&tipl].height + 1;
                        let descs: HashMap<SaitoSignature, TxDesc> = block
                            .transactions
                            .iter()
                            .filter_map(|t| r.pool_descs.get(&t.signature).map(|d| (t.signature, d.clone())))
                            .collect();
                        r.register_block_outputs(&block, &label, height, &descs);
                        r.by_hash.insert(block.hash, label.clone());
                        r.blocks.insert(label.clone(), BuiltBlock { block, label: label.clone(), parent: tipl.clone(), height, descs });
                        let after_bundle = r.state(&r.node);
                        let (res, rres) = r.deliver(&label, wd);
                        let ev = r.block_event(&label, &res, "node",
                            json!({"replica": rres, "tag": st.tag, "bedit": null, "redelivery": false, "pre": pre, "after_bundle": after_bundle}));
                        trace.emit(ev);
                    }
                    Ok(None) => {
                        trace.emit(json!({"ev": "Bundle", "scn": scn_no, "i": r.step_no, "res": "Declined",
                            "pre": pre, "st": r.state(&r.node), "tag": st.tag}));
                    }
                    Err(p) => {
                        trace.emit(json!({"ev": "Bundle", "scn": scn_no, "i": r.step_no, "res": format!("Panic:{}", p),
                            "pre": pre, "st": r.state(&r.node), "tag": st.tag}));
                        break;
                    }
                }
            }
            other => {
                trace.emit(json!({"ev": "Skip", "scn": scn_no, "i": r.step_no, "why": format!("unknown op {}", other)}));
            }
        }
    }
}
