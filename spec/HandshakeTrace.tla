--------------------------- MODULE HandshakeTrace ---------------------------
(* Trace validation for Handshake (C17).  The monitor keeps what the attacker could know *)
(* (challenges and signatures A has sent out) from the recorded outbound messages, and   *)
(* checks every observed step of the peer table against the C17 predicates; the          *)
(* specification's handler functions are evaluated on the observed pre-state to tell a   *)
(* justified acceptance from an unjustified one.                                         *)
EXTENDS Handshake, Json, IOUtils

Rec == ndJsonDeserialize(IOEnv.TRACE)

VARIABLES l, bad, N, sigA, fresh   \* fresh[c]: challenges the node issued on c since c was last opened
tvars == <<l, bad, N, sigA, fresh>>

RoleDef == [c \in Conns |-> IF c % 2 = 1 THEN "acc" ELSE "ini"]
Rng(s) == {s[i] : i \in DOMAIN s}
Keys == {"A", "B", "M", "?"}
Bad(e, why) == [pos |-> l, scn |-> e.scn, i |-> e.i, prop |-> "C17", why |-> why, res |-> e.res]
IsPanic(res) == Len(res) >= 6 /\ SubSeq(res, 1, 6) = "Panic:"

Obs(e) ==
    LET cs == Rng(e.st.conns)
        of(c) == CHOOSE x \in cs : x.conn = c
    IN [status |-> [c \in Conns |-> of(c).status], chal |-> [c \in Conns |-> of(c).chal],
        key |-> [c \in Conns |-> of(c).key],
        byKey |-> [k \in Keys |-> IF \E x \in Rng(e.st.bykey) : x.key = k
                                  THEN (CHOOSE x \in Rng(e.st.bykey) : x.key = k).conn ELSE 0]]

Empty == [status |-> [c \in Conns |-> "none"], chal |-> [c \in Conns |-> NoChal],
          key |-> [c \in Conns |-> NoKey], byKey |-> [k \in Keys |-> 0]]

Checks(e, P, T) ==
    LET c == e.conn IN
    (IF IsPanic(e.res) THEN {Bad(e, "panic")} ELSE {})
    \cup (IF ~IsPanic(e.res) /\ e.ev = "resp" /\ NewlyAuthenticated(P, T, c)
             /\ ~(Acceptable(P, c, e.key, e.x, e.valid, e.ver) /\ T.key[c] = e.key /\ e.x \in fresh[c])
          THEN {Bad(e, "connected-without-valid-signature-over-own-fresh-challenge")} ELSE {})
    \cup (IF ~IsPanic(e.res) /\ e.ev = "close" /\ (T.chal[c] # NoChal \/ T.status[c] = "connected")
          THEN {Bad(e, "challenge-or-authentication-survives-the-connection")} ELSE {})
    \cup (IF ~IsPanic(e.res) /\ e.ev # "resp" /\ NewlyAuthenticated(P, T, c)
          THEN {Bad(e, "connected-without-a-response")} ELSE {})
    \cup (IF ~IsPanic(e.res) /\ e.ev = "resp" /\ NewlyAuthenticated(P, T, c) /\ T.chal[c] # NoChal
          THEN {Bad(e, "challenge-not-consumed-by-acceptance")} ELSE {})
    \cup (IF ~IsPanic(e.res) /\ e.ev = "resp" /\ ~OthersUntouched(P, T, c)
          THEN {Bad(e, "response-disturbed-another-connection")} ELSE {})
    \cup (IF ~IsPanic(e.res) /\ e.ev = "resp" /\ ~Acceptable(P, c, e.key, e.x, e.valid, e.ver)
             /\ ~MapUndisturbed(P, T, c)
          THEN {Bad(e, "rejected-response-disturbed-key-map")} ELSE {})
    \cup (IF ~IsPanic(e.res) /\ e.ev \in {"chal", "open", "close"}
             /\ \E d \in Conns \ {c} : T.status[d] # P.status[d] \/ T.key[d] # P.key[d] \/ T.chal[d] # P.chal[d]
          THEN {Bad(e, "message-changed-another-connection")} ELSE {})

TraceInit == l = 1 /\ bad = {} /\ N = Empty /\ sigA = {} /\ fresh = [c \in Conns |-> {}]

TraceNext ==
    /\ l <= Len(Rec)
    /\ LET e == Rec[l] IN
       IF e.ev = "Reset"
       THEN N' = Empty /\ sigA' = {} /\ bad' = bad /\ fresh' = [c \in Conns |-> {}]
       ELSE LET T == Obs(e) IN
            /\ bad' = bad \cup Checks(e, N, T)
            /\ N' = T
            /\ sigA' = sigA \cup {x.over : x \in {y \in Rng(e.sent) : y.msg = "resp"}}
            /\ fresh' = [c \in Conns |->
                           (IF e.ev \in {"open", "close"} /\ e.conn = c THEN {} ELSE fresh[c])
                             \cup {x.x : x \in {y \in Rng(e.sent) : y.msg = "chal" /\ y.conn = c}}
                             \cup {x.y : x \in {y \in Rng(e.sent) : y.msg = "resp" /\ y.conn = c}}]
    /\ l' = l + 1

TraceSpec == TraceInit /\ [][TraceNext]_tvars
TraceDone == PrintT(<<"TRACE-CONSUMED", TLCGet("stats").diameter - 1, Len(Rec)>>)
ReportBad == (l = Len(Rec) + 1) => \A x \in bad : PrintT(<<"BAD", ToJson(x)>>)
=============================================================================
