------------------------------ MODULE LiteBlock ------------------------------
(***************************************************************************)
(* The transaction commitment (merkle.rs) and the lite-block projection    *)
(* (Block::generate_lite_block).                                    C18    *)
(*                                                                         *)
(* Hashing is an injective constructor: hashes are bracketed strings.       *)
(* A full block has leaves 1..n.  A lite block is a sequence of items      *)
(*   [k |-> "tx",  first, len |-> 1, h]      a transaction kept in full    *)
(*   [k |-> "sub", first, len,       h]      a placeholder standing for    *)
(*                                           len consecutive leaves        *)
(* The tree of merkle.rs: nodes of one level are paired left to right, an  *)
(* odd last node is carried up unchanged.                                  *)
(***************************************************************************)
EXTENDS Naturals, Sequences, FiniteSets, TLC

Leaf(i) == "L" \o ToString(i)
H(a, b) == "(" \o a \o b \o ")"

RECURSIVE PairUp(_)
PairUp(s) == IF Len(s) = 0 THEN <<>>
             ELSE IF Len(s) = 1 THEN s
             ELSE <<H(s[1], s[2])>> \o PairUp(SubSeq(s, 3, Len(s)))

RECURSIVE RootOfLevel(_)
RootOfLevel(s) == IF Len(s) = 1 THEN s[1] ELSE RootOfLevel(PairUp(s))

FullRoot(n) == IF n = 0 THEN "empty" ELSE RootOfLevel([i \in 1..n |-> Leaf(i)])

(* hash of the complete aligned subtree over leaves first..first+len-1 (len a power of two) *)
RECURSIVE SubHash(_, _)
SubHash(first, len) == IF len = 1 THEN Leaf(first)
                       ELSE H(SubHash(first, len \div 2), SubHash(first + len \div 2, len \div 2))

IsPow2(x) == x \in {1, 2, 4, 8, 16, 32, 64}

(* a placeholder is usable only if it is a complete aligned subtree of the commitment tree *)
AlignedSub(first, len, n) ==
    /\ IsPow2(len) /\ (first - 1) % len = 0 /\ first + len - 1 <= n

ValidLite(items, n) ==
    /\ (n = 0 => items = <<>>)
    /\ \A i \in DOMAIN items : items[i].len >= 1
    /\ (items # <<>> => items[1].first = 1)
    /\ \A i \in DOMAIN items : i < Len(items) => items[i + 1].first = items[i].first + items[i].len
    /\ (items # <<>> => items[Len(items)].first + items[Len(items)].len - 1 = n)
    /\ \A i \in DOMAIN items :
          IF items[i].k = "tx" THEN items[i].len = 1 /\ items[i].h = Leaf(items[i].first)
          ELSE AlignedSub(items[i].first, items[i].len, n) /\ items[i].h = SubHash(items[i].first, items[i].len)

(* ---- recomputing the root from lite items ------------------------------------------- *)
(* level-wise: an entry is [h, len, unit] ; at a level with unit u an entry with len > u   *)
(* is an opaque block of len/u nodes (even, aligned), otherwise it is one known node       *)
RECURSIVE LiteLevel(_, _)
LiteLevel(s, u) ==    \* one pairing pass at unit u
    IF Len(s) = 0 THEN <<>>
    ELSE IF s[1].len > u THEN <<s[1]>> \o LiteLevel(Tail(s), u)                   \* opaque: passes up
    ELSE IF Len(s) = 1 THEN <<[s[1] EXCEPT !.len = 2 * u]>>                        \* odd last node carried up
    ELSE IF s[2].len > u THEN <<[h |-> "misaligned", len |-> 2 * u]>> \o LiteLevel(Tail(s), u)
    ELSE <<[h |-> H(s[1].h, s[2].h), len |-> 2 * u]>> \o LiteLevel(SubSeq(s, 3, Len(s)), u)

RECURSIVE LiteRootFrom(_, _)
LiteRootFrom(s, u) == IF Len(s) = 1 /\ s[1].len <= u THEN s[1].h ELSE LiteRootFrom(LiteLevel(s, u), 2 * u)

LiteRoot(items) ==
    IF items = <<>> THEN "empty"
    ELSE LiteRootFrom([i \in DOMAIN items |-> [h |-> items[i].h, len |-> items[i].len]], 1)

(* ---- the reference projection: keep what touches the key list, merge the rest greedily  *)
(* into the largest aligned complete subtrees                                              *)
RECURSIVE MergePass(_, _)
MergePass(s, n) ==
    IF Len(s) <= 1 THEN s
    ELSE IF s[1].k = "sub" /\ s[2].k = "sub" /\ s[1].len = s[2].len
            /\ AlignedSub(s[1].first, 2 * s[1].len, n)
         THEN <<[k |-> "sub", first |-> s[1].first, len |-> 2 * s[1].len, h |-> H(s[1].h, s[2].h)]>>
                 \o MergePass(SubSeq(s, 3, Len(s)), n)
         ELSE <<s[1]>> \o MergePass(Tail(s), n)

RECURSIVE MergeAll(_, _)
MergeAll(s, n) == LET t == MergePass(s, n) IN IF t = s THEN s ELSE MergeAll(t, n)

Project(n, keep) ==     \* keep : subset of 1..n (transactions touching the key list)
    MergeAll([i \in 1..n |-> [k |-> IF i \in keep THEN "tx" ELSE "sub", first |-> i, len |-> 1, h |-> Leaf(i)]], n)

Faithful(n, keep) ==
    LET items == Project(n, keep) IN
    /\ ValidLite(items, n)
    /\ LiteRoot(items) = FullRoot(n)
    /\ \A i \in keep : \E j \in DOMAIN items : items[j].k = "tx" /\ items[j].first = i
=============================================================================
