-------------------------------- MODULE Locks --------------------------------
(***************************************************************************)
(* The shared locks and the order they are taken in.                 C20   *)
(*                                                                         *)
(* Edges is the set of pairs <<held, acquired>> extracted from the code    *)
(* (tools/lockprog.py, from the compiler's MIR): some function acquires    *)
(* `acquired` - directly or through a callee - at a point where a guard of *)
(* `held` may be alive.  The documented global order is                    *)
(*    configuration (3) < blockchain (4) < mempool (5) < peers (6) <       *)
(*    wallet (7).                                                          *)
(* Ordered: no edge goes against it.  The consequence - no set of tasks    *)
(* can deadlock on these locks - is checked on an over-approximation of    *)
(* the tasks: each of a few tasks repeatedly picks any edge, takes its two *)
(* locks exclusively in that order and releases them; TLC's deadlock check *)
(* explores every interleaving.                                            *)
(***************************************************************************)
EXTENDS Naturals, FiniteSets, TLC

CONSTANTS Edges,      \* set of <<held, acquired>>
          Tasks

Rank == [configs |-> 3, blockchain |-> 4, mempool |-> 5, peers |-> 6, wallet |-> 7]
Ranked == DOMAIN Rank
RankedEdges == {e \in Edges : e[1] \in Ranked /\ e[2] \in Ranked /\ e[1] # e[2]}

Ordered == \A e \in RankedEdges : Rank[e[1]] < Rank[e[2]]

VARIABLES holder,    \* lock -> task holding it, or 0
          pc         \* task -> [st |-> "idle" | "one" | "two", e |-> edge]

vars == <<holder, pc>>
None == <<"-", "-">>

Init == /\ holder = [l \in Ranked |-> 0]
        /\ pc = [t \in Tasks |-> [st |-> "idle", e |-> None]]

First(t) ==  \E e \in RankedEdges :
    /\ pc[t].st = "idle" /\ holder[e[1]] = 0
    /\ holder' = [holder EXCEPT ![e[1]] = t]
    /\ pc' = [pc EXCEPT ![t] = [st |-> "one", e |-> e]]

Second(t) ==
    /\ pc[t].st = "one" /\ holder[pc[t].e[2]] = 0
    /\ holder' = [holder EXCEPT ![pc[t].e[2]] = t]
    /\ pc' = [pc EXCEPT ![t] = [st |-> "two", e |-> pc[t].e]]

Release(t) ==
    /\ pc[t].st = "two"
    /\ holder' = [l \in Ranked |-> IF holder[l] = t THEN 0 ELSE holder[l]]
    /\ pc' = [pc EXCEPT ![t] = [st |-> "idle", e |-> None]]

Next == \E t \in Tasks : First(t) \/ Second(t) \/ Release(t)
Spec == Init /\ [][Next]_vars

(* a task waiting for its second lock is waiting for a task that can still move: no cycle of waiters *)
Waiting(t) == pc[t].st = "one" /\ holder[pc[t].e[2]] # 0
NoDeadlock == ~(\A t \in Tasks : Waiting(t))
MutualExclusion == \A l \in Ranked : holder[l] \in Tasks \cup {0}
=============================================================================
