----------------------------- MODULE MC_Chain -----------------------------
(* Bounded instance of Chain: every tree on N blocks (block 1 is the root), every *)
(* validity / weight / ticket assignment allowed by the constants, every delivery *)
(* order with redeliveries.  Also the scenario generator for GEN (path mode).     *)
EXTENDS Chain, Json

CONSTANTS N,           \* number of blocks
          MaxInvalid,  \* at most this many invalid blocks
          MaxLen,      \* deliveries per behaviour
          Tickets,     \* BOOLEAN: explore ticket placement
          Weights,     \* set of weight classes, e.g. {1,2}
          Loaded       \* subset of BOOLEAN: regimes explored (initial loading finished or not)

VARIABLE h    \* history: sequence of delivered block ids

mcvars == <<A, S, w, last, h>>

Blocks == 1..N

RECURSIVE HeightOf(_, _)
HeightOf(par, b) == IF par[b] = None THEN 1 ELSE 1 + HeightOf(par, par[b])

Trees == {par \in [Blocks -> 0..(N-1)] : par[1] = 0 /\ \A b \in 2..N : par[b] >= 1 /\ par[b] < b}

MkA(par, okf, gtf, wf) ==
    [b \in Blocks |->
        [parent |-> par[b], height |-> HeightOf(par, b), gt |-> gtf[b],
         bf |-> <<0, 0, wf[b]>>, ok |-> okf[b],
         \* with a long retention window every block spends its own output of the root; with a
         \* short one (the root's outputs are purged early) the output of its parent, as the
         \* harness world does
         ins |-> IF b = 1 THEN {} ELSE IF G < 50 THEN {<<"o", par[b]>>} ELSE {<<"g", b>>},
         outs |-> IF b = 1 /\ G >= 50 THEN {<<"g", c>> : c \in 2..N} ELSE {<<"o", b>>}]]

MCInit ==
    /\ \E par \in Trees, okf \in [Blocks -> BOOLEAN], wf \in [Blocks -> Weights],
          gtf \in [Blocks -> IF Tickets THEN BOOLEAN ELSE {FALSE}] :
          /\ okf[1]
          /\ Cardinality({b \in Blocks : ~okf[b]}) <= MaxInvalid
          /\ wf[1] = CHOOSE x \in Weights : TRUE
          /\ A = MkA(par, okf, gtf, wf)
    /\ \E ld \in Loaded : S = [EmptyState EXCEPT !.loaded = ld]
    /\ w = Idle
    /\ last = [b |-> None, res |-> "none", ok |-> TRUE, same |-> TRUE, det |-> FALSE]
    /\ h = <<>>

Deliver(b) ==
    /\ Len(h) < MaxLen
    /\ (S.stored = {} => b = 1)       \* the root is what the node starts from
    /\ Offer(b)
    /\ h' = Append(h, b)

MCUnwind == UnwindStep /\ UNCHANGED h
MCWind   == WindStep /\ UNCHANGED h
MCUnNew  == UnNewStep /\ UNCHANGED h
MCRewind == RewindStep /\ UNCHANGED h
MCCrash  == CrashStep /\ UNCHANGED h

MCNext == (\E b \in Blocks : Deliver(b)) \/ MCUnwind \/ MCWind \/ MCUnNew \/ MCRewind \/ MCCrash

MCSpec == MCInit /\ [][MCNext]_mcvars /\ WF_mcvars(Step /\ UNCHANGED h)

Done == w.pc = "idle" /\ Len(h) = MaxLen

Scenario == [blocks |-> [b \in Blocks |-> [id |-> b, parent |-> A[b].parent, gt |-> A[b].gt,
                                            w |-> A[b].bf[3], ok |-> A[b].ok]],
             order |-> h, loaded |-> S.loaded]

PrintScenario == Done => PrintT(<<"SCN", ToJson(Scenario)>>)

NoView == <<A, S, w, last, h>>
=============================================================================
