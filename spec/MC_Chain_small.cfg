SPECIFICATION MCSpec
CONSTANTS
  MaxH = 5
  G = 100
  N = 4
  MaxInvalid = 1
  MaxLen = 5
  Tickets = FALSE
  Weights = {1, 2}
INVARIANTS
  QuiescentConsistent
  MicroEqualsBig
  StepsBounded
PROPERTIES
  TipNeverLower
  OrphanInert
  Terminates
CHECK_DEADLOCK FALSE
