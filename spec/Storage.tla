------------------------------ MODULE Storage ------------------------------
(***************************************************************************)
(* Block files, crashes and restart.                                 C12   *)
(*                                                                         *)
(* The only persisted ledger state is one file per block, named            *)
(* <timestamp>-<hash>.  A file is written non-atomically (create, then     *)
(* write): a crash in between leaves it torn.  Restart (ConsensusThread::  *)
(* on_init) lists the files sorted by name, loads them in that order until *)
(* the first undecodable one (the rest of the batch is skipped), offers    *)
(* the loaded blocks to the chain in height order, and deletes every file  *)
(* whose block is not in the chain index afterwards.                       *)
(*                                                                         *)
(* Blocks: a main chain 1..N (block h has parent h-1) and side blocks      *)
(* Side, each with a parent on the main chain.  ts gives the order of the  *)
(* file names.                                                             *)
(***************************************************************************)
EXTENDS Naturals, Sequences, FiniteSets, TLC

CONSTANTS N,          \* length of the main chain
          SideParent  \* side block (a number above the main chain) -> height of its parent on the main chain, e.g. (101 :> 2)

Side == DOMAIN SideParent
Main == 1..N
Blk == Main \cup Side
Parent(b) == IF b \in Main THEN b - 1 ELSE SideParent[b]          \* 0 = none
Height(b) == IF b \in Main THEN b ELSE SideParent[b] + 1
(* file-name order: main blocks by height; a side block sorts right after the main block of its own height *)
Ts(b) == IF b \in Main THEN 2 * b ELSE 2 * Height(b) + 1

VARIABLES disk,      \* block -> "none" | "torn" | "full"
          mem,       \* blocks in the running node's index
          tip,       \* tip of the running node (0 = no chain)
          phase,     \* "up" | "writing" | "down"
          pending,   \* block whose file is being written
          known,     \* blocks the node has ever held (for the property)
          lastTip    \* tip at the moment of the last crash

vars == <<disk, mem, tip, phase, pending, known, lastTip>>

RECURSIVE Anc(_)
Anc(b) == IF b = 0 THEN {} ELSE {b} \cup Anc(Parent(b))

Init == /\ disk = [b \in Blk |-> "none"] /\ mem = {} /\ tip = 0 /\ phase = "up" /\ pending = 0
        /\ known = {} /\ lastTip = 0

(* a block is accepted when its parent is held (or it is the first block); the longer chain wins *)
Receive(b) ==
    /\ phase = "up" /\ b \notin mem /\ (Parent(b) = 0 \/ Parent(b) \in mem)
    /\ phase' = "writing" /\ pending' = b
    /\ disk' = [disk EXCEPT ![b] = "torn"]          \* the file exists, its content is not complete yet
    /\ UNCHANGED <<mem, tip, known, lastTip>>

FinishWrite ==
    /\ phase = "writing"
    /\ disk' = [disk EXCEPT ![pending] = "full"]
    /\ mem' = mem \cup {pending} /\ known' = known \cup {pending}
    /\ tip' = IF tip = 0 \/ Height(pending) > Height(tip) THEN pending ELSE tip
    /\ phase' = "up" /\ pending' = 0
    /\ UNCHANGED lastTip

Crash ==
    /\ phase \in {"up", "writing"}
    /\ phase' = "down" /\ lastTip' = tip /\ mem' = {} /\ tip' = 0 /\ pending' = 0
    /\ UNCHANGED <<disk, known>>

(* files in name order up to (excluding) the first torn one *)
Files == {b \in Blk : disk[b] # "none"}
Loaded == {b \in Files : disk[b] = "full" /\ \A c \in Files : Ts(c) < Ts(b) => disk[c] = "full"}
(* of the loaded blocks, those that connect: the first block offered starts the chain, later ones need their parent *)
RECURSIVE Connect(_, _)
Connect(acc, rest) ==
    IF rest = {} THEN acc
    ELSE LET b == CHOOSE x \in rest : \A y \in rest : Ts(x) <= Ts(y) IN
         Connect(IF acc = {} \/ Parent(b) \in acc THEN acc \cup {b} ELSE acc, rest \ {b})
Highest(S) == IF S = {} THEN 0 ELSE CHOOSE x \in S : \A y \in S : Height(x) > Height(y) \/ (Height(x) = Height(y) /\ Ts(x) <= Ts(y))

Restart ==
    /\ phase = "down"
    /\ LET chain == Connect({}, Loaded) IN
       /\ mem' = chain /\ tip' = Highest(chain)
       /\ disk' = [b \in Blk |-> IF b \in chain THEN "full" ELSE "none"]     \* unreferenced files are deleted
    /\ phase' = "up"
    /\ UNCHANGED <<pending, known, lastTip>>

Next == (\E b \in Blk : Receive(b)) \/ FinishWrite \/ Crash \/ Restart
Spec == Init /\ [][Next]_vars

TypeOK == /\ disk \in [Blk -> {"none", "torn", "full"}] /\ mem \subseteq Blk /\ tip \in Blk \cup {0}
          /\ phase \in {"up", "writing", "down"}

(* after a restart the node is on the pre-crash tip, one of its ancestors, or a block of a branch it knew *)
RestartLandsOnKnownBlock == phase = "up" /\ tip # 0 => tip \in known
RestartKeepsAncestorOrBranch == [][(Restart /\ tip' # 0) => tip' \in Anc(lastTip) \cup known]_vars
(* nothing is lost by a clean shutdown: with every file complete the tip is rebuilt exactly on a linear history *)
CleanRestartSameTip == [][(Restart /\ (\A b \in Blk : disk[b] # "torn") /\ Side \cap Files = {}) => tip' = lastTip]_vars
(* the same statement without the restriction does NOT hold: among blocks of equal height the running node keeps the  *)
(* one that arrived first, the restarted node the one whose file name sorts first (see DESIGN, known finding)        *)
CleanRestartSameTipWithForks == [][(Restart /\ (\A b \in Blk : disk[b] # "torn")) => tip' = lastTip]_vars
(* the chain in memory always has its files: the node can serve and reload what it indexes *)
IndexedBlocksOnDisk == phase = "up" => \A b \in mem : disk[b] = "full"
(* no torn file survives a restart *)
NoTornAfterRestart == [][Restart => \A b \in Blk : disk'[b] # "torn"]_vars
(* the chain that comes up can be extended: its tip is held completely *)
TipExtendable == phase = "up" /\ tip # 0 => disk[tip] = "full" /\ Anc(tip) \subseteq mem
=============================================================================
