----------------------------- MODULE SyncTrace -----------------------------
(* Trace validation for Sync.tla (C15): the estimate the real functions produce on real chains is   *)
(* the one the transcription produces and is never later than the true fork point; every two-node   *)
(* run, whatever order the scheduler delivered messages and fetched blocks in, ends with the        *)
(* syncing node on the peer's tip, every needed block having been announced.                        *)
EXTENDS Sync, Json, IOUtils

Rec == ndJsonDeserialize(IOEnv.TRACE)
VARIABLES l, bad
tvars == <<l, bad, svars>>
Bad(e, why) == [pos |-> l, scn |-> e.scn, i |-> e.i, prop |-> "C15", why |-> why, res |-> e.res]
IsPanic(res) == Len(res) >= 6 /\ SubSeq(res, 1, 6) = "Panic:"
Rng(s) == {s[i] : i \in DOMAIN s}

Checks(e) ==
    CASE e.ev = "Estimate" ->
           (IF IsPanic(e.res) THEN {Bad(e, "estimate-panicked")} ELSE
            (IF e.est > e.p THEN {Bad(e, "estimate-later-than-fork-point")} ELSE {})
            \cup (IF e.est # Estimate(e.p, e.mine, e.theirs) THEN {Bad(e, "estimate-differs-from-transcription")} ELSE {}))
      [] e.ev = "End" /\ e.lite ->
           \* a lite client: ghost chain + lite blocks.  Not one of the listed properties: divergences are recorded
           \* as observations (prop "LITE"), except a handler panic
           (IF IsPanic(e.res) THEN {Bad(e, "handler-panicked-during-sync")} ELSE
            {[pos |-> l, scn |-> e.scn, i |-> e.i, prop |-> "LITE", why |-> w, res |-> e.res] : w \in
               (IF ~(e.a_on_b_tip /\ e.same_tip) THEN {"lite-node-below-peer-tip"} ELSE {})
               \cup (IF Rng(e.touching) # Rng(e.held) THEN {"lite-node-lacks-a-block-touching-its-key"} ELSE {})
               \cup (IF e.wallet_a # e.ledger_a THEN {"lite-wallet-differs-from-ledger"} ELSE {})})
      [] e.ev = "End" ->
           (IF IsPanic(e.res) THEN {Bad(e, "handler-panicked-during-sync")} ELSE
            (IF e.budget_hit THEN {Bad(e, "exchange-did-not-quiesce")} ELSE {})
            \cup (IF ~e.b_on_own_tip THEN {Bad(e, "peer-left-its-own-longer-chain")} ELSE {})
            \cup (IF ~(e.a_on_b_tip /\ e.same_tip) THEN {Bad(e, "did-not-converge-to-peer-tip")} ELSE {})
            \cup (IF \E h \in (e.p + 1)..(e.p + e.lb) : h \notin Rng(e.announced_by_b)
                  THEN {Bad(e, "needed-block-never-announced")} ELSE {}))
      [] e.ev = "Reset" -> IF ~e.setup_ok THEN {[pos |-> l, scn |-> e.scn, i |-> 0, prop |-> "C15", why |-> "harness-setup-failed", res |-> ""]} ELSE {}
      [] OTHER -> {}

TraceInit == l = 1 /\ bad = {} /\ SInit
TraceNext == /\ l <= Len(Rec) /\ bad' = bad \cup Checks(Rec[l]) /\ l' = l + 1 /\ UNCHANGED svars
TraceSpec == TraceInit /\ [][TraceNext]_tvars
TraceDone == PrintT(<<"TRACE-CONSUMED", TLCGet("stats").diameter - 1, Len(Rec)>>)
ReportBad == (l = Len(Rec) + 1) => \A x \in bad : PrintT(<<"BAD", ToJson(x)>>)
=============================================================================
