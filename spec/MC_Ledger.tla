----------------------------- MODULE MC_Ledger -----------------------------
(***************************************************************************)
(* Bounded ledger model: a linear chain of blocks over a few keys and      *)
(* outputs with a short retention window, an honest producer, automatic    *)
(* rebroadcast at the window edge, a transaction pool, and an adversary    *)
(* who offers blocks and pool transactions derived from valid ones by the  *)
(* edit catalogue.  The validity rules are those of Ledger.tla; TLC checks *)
(* the design invariants and emits the behaviours as scenarios (GEN).      *)
(***************************************************************************)
EXTENDS Ledger, Json

CONSTANTS Keys,      \* e.g. {"k1", "k2"}
          G,         \* retention window
          MaxH,      \* chain height bound
          MaxBad,    \* adversarial steps per behaviour
          Edits,     \* transaction edits the adversary may use
          PoolOps,   \* BOOLEAN: explore pool operations
          GTChoices, \* subset of BOOLEAN: ticket flags the honest producer may choose
          ScnLen     \* scenario length at which a behaviour is emitted (0 = at MaxH)

VARIABLES u,      \* spendable outputs [o, owner, amt, bh, kind]   (amt: limb triple)
          h,      \* tip height
          n,      \* transaction counter
          spent,  \* outputs that existed and were consumed (incl. rebroadcast originals)
          pool,   \* pooled transactions (records)
          nbad,
          hist,   \* scenario steps
          tipl,   \* label of the current tip block
          prev    \* snapshot taken before the last accepted block (for forks): [ok, u, h, spent, tipl]

vars == <<u, h, n, spent, pool, nbad, hist, tipl, prev>>

L(a) == <<0, 0, a>>
Amt(x) == x.amt[3]

Genesis == {[o |-> "g0", owner |-> "k1", amt |-> L(1000), bh |-> 1, kind |-> KNormal],
            [o |-> "g1", owner |-> "k1", amt |-> L(600), bh |-> 1, kind |-> KNormal],
            [o |-> "g2", owner |-> "k2", amt |-> L(800), bh |-> 1, kind |-> KNormal],
            [o |-> "g3", owner |-> "k2", amt |-> L(400), bh |-> 1, kind |-> KNormal]}
Issued == L(2800)

TxId(k) == "t" \o ToString(k)
OutName(k, i) == TxId(k) \o "." \o ToString(i - 1)

(* an honest spend of output x: `a` units to key `to`, the rest back to the owner *)
Spend(k, x, to, a) ==
    LET outs == IF a = Amt(x) THEN <<[o |-> OutName(k, 1), owner |-> to, amt |-> L(a), kind |-> KNormal]>>
                ELSE <<[o |-> OutName(k, 1), owner |-> to, amt |-> L(a), kind |-> KNormal],
                       [o |-> OutName(k, 2), owner |-> x.owner, amt |-> L(Amt(x) - a), kind |-> KNormal]>>
    IN [id |-> TxId(k), type |-> TNormal, auto |-> FALSE, signer |-> x.owner, sigok |-> TRUE,
        ins |-> <<x>>, outs |-> outs, hops |-> <<>>, pathok |-> TRUE, edit |-> "", base |-> x.o]

Splits(x) == IF Amt(x) >= 2 THEN {Amt(x), Amt(x) \div 2} ELSE {Amt(x)}

Spendable(hh) == {x \in u : InWindow(x.bh, hh, G)}

(* automatic rebroadcast performed by the block at height hh on ledger v *)
AtrName(x, hh) == "atr:" \o x.o \o "@b" \o ToString(hh) \o ".0"
AtrTx(x, hh) ==
    [id |-> "", type |-> TATR, auto |-> TRUE, signer |-> "", sigok |-> TRUE,
     ins |-> <<x>>,
     outs |-> <<[o |-> AtrName(x, hh), owner |-> x.owner, amt |-> x.amt, kind |-> KATR]>>,
     hops |-> <<>>, pathok |-> TRUE, edit |-> "", base |-> x.o]
Rebroadcast(v, hh) ==
    LET leaving == Leaving(v, hh, G) IN
    {x \in v : x \notin leaving}
      \cup {[o |-> AtrName(x, hh), owner |-> x.owner, amt |-> x.amt, bh |-> hh, kind |-> KATR] : x \in leaving}

(* the adversary's view of a transaction after an edit (what the rules see) *)
Other(k) == CHOOSE x \in Keys : x # k
Edited(t, e, extra) ==
    CASE e \in {"forge_sig", "no_sig", "flip_sig", "tamper_output", "zero_lead_foreign"} ->
             [t EXCEPT !.sigok = FALSE, !.edit = e]
      [] e = "type_fee" -> [t EXCEPT !.type = TFee, !.edit = e]
      [] e = "type_atr" -> [t EXCEPT !.type = TATR, !.edit = e]
      [] e = "type_issuance" -> [t EXCEPT !.type = TIssuance, !.edit = e]
      [] e = "type_spv" -> [t EXCEPT !.type = TSPV, !.edit = e]
      [] e = "dup_input" -> [t EXCEPT !.ins = <<t.ins[1], t.ins[1]>>, !.edit = e]
      [] e = "inflate_input" ->
             [t EXCEPT !.ins = <<[t.ins[1] EXCEPT !.o = "X", !.amt = L(Amt(t.ins[1]) + 1)]>>, !.edit = e]
      [] e = "phantom_input" -> [t EXCEPT !.ins = <<t.ins[1], [t.ins[1] EXCEPT !.o = "X"]>>, !.edit = e]
      [] e = "overspend" ->
             [t EXCEPT !.outs = [t.outs EXCEPT ![1] = [t.outs[1] EXCEPT !.amt = L(2 * Amt(t.ins[1]) + Amt(t.outs[1]) + 1)]], !.edit = e]
      [] e = "wrap_outputs" ->
             [t EXCEPT !.outs = t.outs \o <<[o |-> "W1", owner |-> t.outs[1].owner, amt |-> <<2097152, 0, 0>>, kind |-> KNormal],
                                           [o |-> "W2", owner |-> t.outs[1].owner, amt |-> <<2097152, 0, 0>>, kind |-> KNormal]>>,
                       !.edit = e]
      [] e = "foreign_input" -> [t EXCEPT !.ins = <<t.ins[1], extra>>, !.edit = e]
      [] e = "spent_input" -> [t EXCEPT !.ins = <<extra>>, !.signer = extra.owner, !.edit = e]

(* scenario form of a transaction: what the harness needs to build the real one *)
Desc(t) ==
    LET e == t.edit
        (* structural edits are re-applied by the harness on the honestly built transaction *)
        base_ins == IF e \in {"dup_input", "inflate_input", "phantom_input"} THEN <<t.base>>
                    ELSE [i \in DOMAIN t.ins |-> t.ins[i].o]
        base_outs == IF e = "wrap_outputs" THEN SubSeq(t.outs, 1, Len(t.outs) - 2) ELSE t.outs
    IN [id |-> t.id, signer |-> t.signer,
        ins |-> IF e = "inflate_input" THEN base_ins ELSE base_ins,
        outs |-> [i \in DOMAIN base_outs |-> <<base_outs[i].owner,
                     IF e = "overspend" /\ i = 1 THEN Amt(base_outs[i]) - 2 * Amt(t.ins[1]) - 1 - 0
                     ELSE Amt(base_outs[i])>>],
        edit |-> IF e \in {"foreign_input", "spent_input"} THEN "" ELSE e]

Init ==
    /\ u = Genesis /\ h = 1 /\ n = 1 /\ spent = {} /\ pool = {} /\ nbad = 0 /\ hist = <<>>
    /\ tipl = "b1" /\ prev = [ok |-> FALSE, u |-> {}, h |-> 0, spent |-> {}, tipl |-> ""]

(* after every accepted block the pool drops what no longer validates (remove_block_transactions) *)
Prune(pl, v, hh) == {q \in pl : q.ins[1].o \in Names(v) /\ InWindow(q.ins[1].bh, hh + 1, G)}

(* ---- honest blocks ---------------------------------------------------------------- *)
GoodBlock ==
    /\ h < MaxH
    /\ \E gt \in (IF h + 1 >= 4 THEN {TRUE} ELSE GTChoices) :
          \E x \in Spendable(h + 1), to \in Keys : \E a \in Splits(x) :
             LET t == Spend(n, x, to, a)
                 v == ApplyTx(u, t, h + 1)
             IN /\ x.o \notin {p.ins[1].o : p \in pool}
                /\ u' = Rebroadcast(v, h + 1)
                /\ spent' = spent \cup {x} \cup Leaving(v, h + 1, G)
                /\ hist' = Append(hist, [op |-> "block", label |-> "b" \o ToString(h + 1), gt |-> gt,
                                        txs |-> <<Desc(t)>>, tag |-> "good"])
                /\ n' = n + 1
                /\ pool' = Prune(pool, Rebroadcast(v, h + 1), h + 1)
    /\ h' = h + 1
    /\ tipl' = "b" \o ToString(h + 1)
    /\ prev' = [ok |-> TRUE, u |-> u, h |-> h, spent |-> spent, tipl |-> tipl]
    /\ UNCHANGED <<nbad>>

(* (A transaction spending an output created earlier in the same block is not supported by *)
(* the node - transactions are validated against the ledger as it was before the block -   *)
(* so the honest producer never does it.)                                                  *)

(* ---- adversarial blocks: expected to be rejected, the ledger does not move --------- *)
Extras(e, x) == IF e = "foreign_input" THEN {z \in Spendable(h + 1) : z.owner # x.owner}
                ELSE IF e = "spent_input" THEN spent ELSE {x}
BadTx(e) ==
    UNION {UNION {{Edited(Spend(n, x, to, Amt(x)), e, extra) : extra \in Extras(e, x)} : to \in Keys}
              : x \in Spendable(h + 1)}

BadBlock ==
    /\ h < MaxH /\ nbad < MaxBad
    /\ \E e \in Edits : \E t \in BadTx(e) :
          /\ hist' = Append(hist, [op |-> "block", label |-> "x" \o ToString(Len(hist) + 1), gt |-> (h + 1 >= 3),
                                  txs |-> <<Desc(t)>>,
                                  tag |-> "bad:" \o (IF t.edit = "" THEN e ELSE t.edit)])
          /\ TxViolations(u, t, h + 1, G) # {}     \* the catalogue really breaks a rule
    /\ nbad' = nbad + 1 /\ n' = n + 1
    /\ UNCHANGED <<u, h, spent, pool, tipl, prev>>

(* a user transaction spending an output that this very block has to rebroadcast *)
BadLeaving ==
    /\ h < MaxH /\ nbad < MaxBad
    /\ \E x \in Leaving(u, h + 1, G) :
          LET t == Spend(n, x, x.owner, Amt(x)) IN
          /\ TxViolations(u, t, h + 1, G) # {}
          /\ hist' = Append(hist, [op |-> "block", label |-> "x" \o ToString(Len(hist) + 1), gt |-> (h + 1 >= 3),
                                  txs |-> <<Desc(t)>>, tag |-> "bad:leaving_input"])
    /\ nbad' = nbad + 1 /\ n' = n + 1
    /\ UNCHANGED <<u, h, spent, pool, tipl, prev>>

(* the same output spent by two transactions of one block *)
DoubleSpendBlock ==
    /\ h < MaxH /\ nbad < MaxBad
    /\ \E x \in Spendable(h + 1) :
          LET t1 == Spend(n, x, x.owner, Amt(x))
              t2 == Spend(n + 1, x, Other(x.owner), Amt(x))
          IN /\ hist' = Append(hist, [op |-> "block", label |-> "x" \o ToString(Len(hist) + 1), gt |-> (h + 1 >= 3),
                                     txs |-> <<Desc(t1), Desc(t2)>>, tag |-> "bad:double_spend_in_block"])
             /\ BlockViolations(u, <<t1, t2>>, h + 1, G) # {}
    /\ nbad' = nbad + 1 /\ n' = n + 2
    /\ UNCHANGED <<u, h, spent, pool, tipl, prev>>

(* ---- pool ---------------------------------------------------------------------------- *)
SubmitGood ==
    /\ PoolOps /\ Cardinality(pool) < 2
    /\ \E x \in Spendable(h + 1), to \in Keys :
          LET t == Spend(n, x, to, Amt(x)) IN
          /\ x.o \notin {p.ins[1].o : p \in pool}
          /\ pool' = pool \cup {t}
          /\ hist' = Append(hist, [op |-> "submit", tx |-> Desc(t), tag |-> "good"])
    /\ n' = n + 1
    /\ UNCHANGED <<u, h, spent, nbad, tipl, prev>>

(* a two-input transaction whose first input is free and whose second one is spent by a    *)
(* pooled transaction: refused, and the free input must stay spendable                     *)
SubmitPartialConflict ==
    /\ PoolOps /\ nbad < MaxBad
    /\ \E p \in pool : \E x \in Spendable(h + 1) :
          /\ x.owner = p.ins[1].owner /\ x.o \notin {r.ins[1].o : r \in pool}
          /\ LET t == [Spend(n, x, x.owner, Amt(x)) EXCEPT
                        !.ins = <<x, p.ins[1]>>,
                        !.outs = <<[o |-> OutName(n, 1), owner |-> x.owner,
                                    amt |-> L(Amt(x) + Amt(p.ins[1])), kind |-> KNormal]>>]
             IN hist' = Append(hist, [op |-> "submit", tx |-> Desc(t), tag |-> "bad:partial_conflict"])
    /\ n' = n + 1 /\ nbad' = nbad + 1
    /\ UNCHANGED <<u, h, spent, pool, tipl, prev>>

SubmitConflict ==   \* spends an output an already pooled transaction spends: refused
    /\ PoolOps /\ nbad < MaxBad
    /\ \E p \in pool :
          LET t == Spend(n, p.ins[1], Other(p.ins[1].owner), Amt(p.ins[1])) IN
          hist' = Append(hist, [op |-> "submit", tx |-> Desc(t), tag |-> "bad:conflict"])
    /\ n' = n + 1 /\ nbad' = nbad + 1
    /\ UNCHANGED <<u, h, spent, pool, tipl, prev>>

SubmitBad ==
    /\ PoolOps /\ nbad < MaxBad
    /\ \E e \in Edits : \E t \in BadTx(e) :
          /\ TxViolations(u, t, h + 1, G) # {}
          /\ hist' = Append(hist, [op |-> "submit", tx |-> Desc(t),
                                  tag |-> "bad:" \o (IF t.edit = "" THEN e ELSE t.edit)])
    /\ n' = n + 1 /\ nbad' = nbad + 1
    /\ UNCHANGED <<u, h, spent, pool, tipl, prev>>

(* a block from a peer confirming one pooled transaction *)
ConfirmPooled ==
    /\ PoolOps /\ h < MaxH
    /\ \E p \in pool :
          LET v == ApplyTx(u, p, h + 1) IN
          /\ InWindow(p.ins[1].bh, h + 1, G)
          /\ u' = Rebroadcast(v, h + 1)
          /\ spent' = spent \cup {p.ins[1]} \cup Leaving(v, h + 1, G)
          /\ pool' = Prune(pool \ {p}, Rebroadcast(v, h + 1), h + 1)
          /\ hist' = Append(hist, [op |-> "block", label |-> "b" \o ToString(h + 1), gt |-> (h + 1 >= 3),
                                  txs |-> <<Desc(p)>>, tag |-> "confirm"])
    /\ h' = h + 1
    /\ tipl' = "b" \o ToString(h + 1)
    /\ prev' = [ok |-> TRUE, u |-> u, h |-> h, spent |-> spent, tipl |-> tipl]
    /\ UNCHANGED <<n, nbad>>

(* a competing branch of two blocks built on the parent of the tip: the node reorganises, *)
(* the outputs created by the unwound tip disappear, its inputs come back                 *)
ForkBlocks ==
    /\ prev.ok /\ h < MaxH
    /\ \E x1 \in {z \in prev.u : InWindow(z.bh, h, G)}, to \in Keys :
          LET t1 == Spend(n, x1, to, Amt(x1))
              v1 == Rebroadcast(ApplyTx(prev.u, t1, h), h)
          IN \E x2 \in {z \in v1 : InWindow(z.bh, h + 1, G)} :
             LET t2 == Spend(n + 1, x2, Other(x2.owner), Amt(x2))
                 w2 == ApplyTx(v1, t2, h + 1)
                 v2 == Rebroadcast(w2, h + 1)
                 l1 == "s" \o ToString(Len(hist) + 1)
                 l2 == "s" \o ToString(Len(hist) + 2)
             IN /\ u' = v2
                /\ spent' = prev.spent \cup {x1, x2} \cup Leaving(ApplyTx(prev.u, t1, h), h, G)
                                \cup Leaving(w2, h + 1, G)
                /\ pool' = Prune(pool, v2, h + 1)
                /\ hist' = hist \o <<[op |-> "block", label |-> l1, parent |-> prev.tipl, gt |-> (h >= 3),
                                      txs |-> <<Desc(t1)>>, tag |-> "fork"],
                                     [op |-> "block", label |-> l2, parent |-> l1, gt |-> (h + 1 >= 3),
                                      txs |-> <<Desc(t2)>>, tag |-> "fork"]>>
                /\ tipl' = l2
    /\ h' = h + 1 /\ n' = n + 2
    /\ prev' = [prev EXCEPT !.ok = FALSE]
    /\ UNCHANGED <<nbad>>

Next == GoodBlock \/ BadLeaving \/ BadBlock \/ DoubleSpendBlock \/ SubmitGood \/ SubmitConflict
        \/ SubmitBad \/ ConfirmPooled \/ SubmitPartialConflict \/ ForkBlocks

Spec == Init /\ [][Next]_vars

(* ---- design invariants -------------------------------------------------------------- *)
NothingExpiredLingers == \A x \in u : x.bh + G >= h                                    \* C13
SupplyConserved == LimbEq(SumSet(u), Issued)                                            \* C02
SpentStaysSpent == Names(spent) \cap Names(u) = {}                                      \* C01
NamesUnique == \A x, y \in u : x.o = y.o => x = y
PoolSpendsLive == \A p \in pool : p.ins[1].o \in Names(u) /\ InWindow(p.ins[1].bh, h + 1, G)                               \* C14
PoolNoShare == \A p, q \in pool : p # q => p.ins[1].o # q.ins[1].o                      \* C14

Done == IF ScnLen = 0 THEN h = MaxH ELSE Len(hist) = ScnLen
Scenario == [g |-> G, keys |-> Cardinality(Keys), node_key |-> "k1", replica |-> TRUE,
             issuance |-> <<<<"k1", 1000>>, <<"k1", 600>>, <<"k2", 800>>, <<"k2", 400>>>>,
             steps |-> hist]
PrintScenario == Done => PrintT(<<"SCN", ToJson(Scenario)>>)
=============================================================================
