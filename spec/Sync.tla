-------------------------------- MODULE Sync --------------------------------
(***************************************************************************)
(* Synchronising from a peer.                                       C15    *)
(*                                                                         *)
(* Part 1 - the compact fork identifier and the common-ancestor estimate,  *)
(* transcribed from Blockchain::generate_fork_id and                       *)
(* generate_last_shared_ancestor(_when_peer_ahead/_behind) with the real   *)
(* weights.  Hashes are injective: the block at height h of a chain is     *)
(* "S<h>" on the shared prefix and "<tag><h>" above it.                    *)
(*                                                                         *)
(* Part 2 - the exchange: chain summary, stream of header hashes from the  *)
(* estimate, a bounded number of concurrent block fetches completing in    *)
(* any order, and the rule for a block that arrives before its parent      *)
(* (RetryOrphans = TRUE: it waits for the parent, as the code does once    *)
(* start-up loading is over; FALSE: it is stored unconnected, the pinned   *)
(* behaviour).                                                             *)
(***************************************************************************)
EXTENDS Naturals, Sequences, FiniteSets, TLC

Weights == <<0, 10, 10, 10, 10, 10, 25, 25, 100, 300, 500, 4000, 10000, 20000, 50000, 100000>>
Round10(n) == n - (n % 10)

(* a chain = [p |-> shared prefix length, len |-> length, tag |-> name of its own branch] *)
BlockAt(c, h) == IF h < 1 \/ h > c.len THEN "none" ELSE IF h <= c.p THEN "S" \o ToString(h) ELSE c.tag \o ToString(h)

(* generate_fork_id(latest): entry i = block at round10(latest) - W1 - .. - Wi, while that stays positive *)
RECURSIVE ForkFrom(_, _, _)
ForkFrom(c, i, cur) ==
    IF i > 16 THEN <<>>
    ELSE IF cur <= Weights[i] THEN [j \in 1..(17 - i) |-> "zero"]
    ELSE LET nxt == cur - Weights[i] IN
         IF BlockAt(c, nxt) = "none" THEN [j \in 1..(17 - i) |-> "zero"]
         ELSE <<BlockAt(c, nxt)>> \o ForkFrom(c, i + 1, nxt)
ForkId(c) == ForkFrom(c, 1, Round10(c.len))

(* the walk shared by the two branches of generate_last_shared_ancestor *)
RECURSIVE Walk(_, _, _, _)
Walk(me, fork, i, cur) ==
    IF i > 16 THEN 0
    ELSE IF cur < Weights[i] THEN 0
    ELSE LET nxt == cur - Weights[i] IN
         IF BlockAt(me, nxt) # "none" /\ fork[i] = BlockAt(me, nxt) THEN nxt
         ELSE Walk(me, fork, i + 1, nxt)

Ancestor(me, peerLen, fork) ==
    IF peerLen >= me.len THEN Walk(me, fork, 1, Round10(me.len))
    ELSE Walk(me, fork, 1, Round10(peerLen))

Chain(p, len, tag) == [p |-> p, len |-> len, tag |-> tag]
(* what the node with chain (p, mine) answers to a peer whose chain is (p, theirs) *)
Estimate(p, mine, theirs) == Ancestor(Chain(p, mine, "M"), theirs, ForkId(Chain(p, theirs, "T")))

(* the estimate is never later than the true fork point, so no needed block is skipped *)
EstimateSafe(N) == \A p \in 0..N : \A a \in p..N : \A b \in p..N : Estimate(p, a, b) <= p

(* ---- part 2: the exchange ------------------------------------------------------------ *)
CONSTANTS P, LA, LB,      \* shared prefix, blocks of the syncing node / of the peer beyond it (LB > LA)
          Batch,          \* concurrent fetches
          RetryOrphans

VARIABLES phase,      \* "idle" | "requested" | "streaming"
          announced,  \* heights of the peer's chain announced and not yet requested
          inflight,   \* fetches in progress
          stored,     \* heights of the peer's branch the node holds (connected or not)
          conn        \* the peer's chain is connected in the node's block index up to this height

svars == <<phase, announced, inflight, stored, conn>>
PeerLen == P + LB
MyLen == P + LA

SInit == /\ phase = "idle" /\ announced = {} /\ inflight = {} /\ stored = {} /\ conn = P

Request == /\ phase = "idle" /\ phase' = "requested"
           /\ UNCHANGED <<announced, inflight, stored, conn>>

(* the peer streams every header hash from its estimate of the common ancestor to its tip *)
Stream == /\ phase = "requested" /\ phase' = "streaming"
          /\ announced' = {h \in Estimate(P, PeerLen, MyLen)..PeerLen : h > P}     \* the node holds the shared ones
          /\ UNCHANGED <<inflight, stored, conn>>

Min(S) == CHOOSE x \in S : \A y \in S : x <= y
Fetch == /\ announced # {} /\ Cardinality(inflight) < Batch
         /\ LET h == Min(announced) IN announced' = announced \ {h} /\ inflight' = inflight \cup {h}
         /\ UNCHANGED <<phase, stored, conn>>

RECURSIVE Climb(_, _)
Climb(t, hs) == IF t + 1 \in hs THEN Climb(t + 1, hs) ELSE t

Deliver(h) ==     \* completions come back in any order
    /\ h \in inflight /\ inflight' = inflight \ {h}
    /\ stored' = stored \cup {h}
    /\ conn' = IF RetryOrphans THEN Climb(conn, stored \cup {h})
               ELSE IF h > conn /\ (conn + 1)..h \subseteq (stored \cup {h}) THEN h ELSE conn
    /\ UNCHANGED <<phase, announced>>

SNext == Request \/ Stream \/ Fetch \/ \E h \in inflight : Deliver(h)
SSpec == SInit /\ [][SNext]_svars
SFair == SSpec /\ WF_svars(SNext)

(* the node follows the peer's chain once it is connected and longer than its own *)
OnPeerTip == conn = PeerLen /\ PeerLen > MyLen
NothingSkipped == phase = "streaming" => \A h \in (P + 1)..PeerLen : h \in announced \cup inflight \cup stored
Converges == <>[]OnPeerTip
STypeOK == /\ conn \in P..PeerLen /\ stored \subseteq 1..PeerLen /\ inflight \subseteq 1..PeerLen
           /\ Cardinality(inflight) <= Batch
=============================================================================
