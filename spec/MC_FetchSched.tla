--------------------------- MODULE MC_FetchSched ---------------------------
(* Bounded instance of FetchSched: a few peers and hashes, every interleaving of          *)
(* announcements, picture building, selection rounds, fetch successes / failures, removals *)
(* and blocks arriving by another route.  Also the scenario generator (GEN).               *)
EXTENDS FetchSched, Json

CONSTANTS Peers, Hashes,
          TwoIds,                  \* BOOLEAN: a peer may announce one hash under two different ids
          MaxAnn,                  \* announcements per (peer, hash)
          MaxLen                   \* scenario length (0 = unbounded, for model checking)

HonestId(x) == (x + 1) \div 2          \* hashes 1,2 at height 1; 3,4 at height 2; ...
Heights == [x \in Hashes |-> IF TwoIds THEN {HonestId(x), HonestId(x) + 1} ELSE {HonestId(x)}]

VARIABLES rp, q, have, ann, h

vars == <<rp, q, have, ann, h>>

Init ==
    /\ rp = [p \in Peers |-> <<>>]
    /\ q = [p \in Peers |-> <<>>]
    /\ have = {}
    /\ ann = [p \in Peers |-> [x \in Hashes |-> 0]]
    /\ h = <<>>

Log(e) == h' = IF MaxLen = 0 THEN h ELSE Append(h, e)
Room == MaxLen = 0 \/ Len(h) < MaxLen

Announce(p, x, i) ==
    /\ Room /\ ann[p][x] < MaxAnn
    /\ rp' = [rp EXCEPT ![p] = Append(@, <<i, x>>)]
    /\ ann' = [ann EXCEPT ![p][x] = @ + 1]
    /\ Log([op |-> "announce", peer |-> p, hash |-> x, id |-> i])
    /\ UNCHANGED <<q, have>>

Build ==
    /\ Room /\ \E p \in Peers : rp[p] # <<>>
    /\ q' = [p \in Peers |-> BuildPeer(q[p], rp[p], have)]
    /\ rp' = [p \in Peers |-> <<>>]
    /\ Log([op |-> "build"])
    /\ UNCHANGED <<have, ann>>

Select ==
    /\ Room /\ \E p \in Peers : q[p] # <<>>
    /\ q' = [p \in Peers |-> SelectPeer(q[p]).q]
    /\ Log([op |-> "select"])
    /\ UNCHANGED <<rp, have, ann>>

InFlight(p, x) == \E k \in DOMAIN q[p] : q[p][k].hash = x /\ q[p][k].st = "F"

FetchDone(x) ==     \* some in-flight fetch of x completes: mark_as_fetched
    /\ Room /\ \E p \in Peers : InFlight(p, x)
    /\ q' = [p \in Peers |-> DropFirst(q[p], x)]
    /\ Log([op |-> "fetched", hash |-> x])
    /\ UNCHANGED <<rp, have, ann>>

FetchFailed(p, x) ==
    /\ Room /\ InFlight(p, x)
    /\ \E k \in DOMAIN q[p] :
          /\ q[p][k].hash = x /\ q[p][k].st = "F"
          /\ q' = [q EXCEPT ![p] = FailPeer(@, x, q[p][k].id)]
          /\ Log([op |-> "failed", peer |-> p, hash |-> x, id |-> q[p][k].id])
    /\ UNCHANGED <<rp, have, ann>>

OnChain(x) ==       \* the block was added to the chain (fetched or received by another route)
    /\ Room /\ x \notin have
    /\ have' = have \cup {x}
    /\ q' = [p \in Peers |-> RemovePeer(q[p], x)]
    /\ Log([op |-> "onchain", hash |-> x])
    /\ UNCHANGED <<rp, ann>>

Next ==
    \/ \E p \in Peers, x \in Hashes : \E i \in Heights[x] : Announce(p, x, i)
    \/ Build \/ Select
    \/ \E x \in Hashes : FetchDone(x) \/ OnChain(x)
    \/ \E p \in Peers, x \in Hashes : FetchFailed(p, x)

Complete == \E x \in Hashes : FetchDone(x)
Spec == Init /\ [][Next]_vars /\ WF_vars(Build) /\ WF_vars(Select) /\ WF_vars(Complete)

(* ---- C16 ------------------------------------------------------------------------------ *)
Bounded      == \A p \in Peers : InFlightBounded(q[p])
NoUnderflow  == \A p \in Peers : ~SelectPeer(q[p]).underflow
NoDupFlight  == \A p \in Peers : NoDuplicateInFlight(q[p])
NoDupEntry   == \A p \in Peers : NoDuplicateEntry(q[p])
Retries      == \A p \in Peers : RetriesBounded(q[p])
Ordered      == \A p \in Peers : RoundOrdered(Sorted(q[p]), SelectPeer(q[p]).sel)   \* of the round that would start now
(* every queued entry is eventually requested, dropped because the block arrived, or given up *)
Complete16 ==
    \A p \in Peers, x \in Hashes :
        (\E k \in DOMAIN q[p] : q[p][k].hash = x /\ q[p][k].st = "Q")
          ~> (~\E k \in DOMAIN q[p] : q[p][k].hash = x /\ q[p][k].st = "Q")

Done == MaxLen > 0 /\ Len(h) = MaxLen
PrintScenario == Done => PrintT(<<"SCN", ToJson([batch |-> Batch, steps |-> h])>>)
=============================================================================
