----------------------------- MODULE FetchSched -----------------------------
(***************************************************************************)
(* The per-peer block-fetch scheduler (BlockchainSyncState).        C16    *)
(*                                                                         *)
(* State and every branch follow blockchain_sync_state.rs; the operators   *)
(* Build / Select / Fetched / Failed / Remove are functions of the state   *)
(* so that the bounded model and the trace monitor share them.             *)
(*                                                                         *)
(*  rp[p] : announcements received from peer p, not yet turned into queue  *)
(*          entries: sequence of <<id, hash>>                              *)
(*  q[p]  : fetch queue of peer p: sequence of [hash, id, st, rc]          *)
(*          st in {"Q","F","D","X"} = queued, fetching, fetched, failed    *)
(***************************************************************************)
EXTENDS Naturals, Sequences, FiniteSets, SequencesExt, TLC

CONSTANTS Batch, MaxRetries

Less(a, b) == a.id < b.id \/ (a.id = b.id /\ a.hash < b.hash)
LessPair(a, b) == a[1] < b[1] \/ (a[1] = b[1] /\ a[2] < b[2])
Sorted(s) == SortSeq(s, Less)

Entry(h, i) == [hash |-> h, id |-> i, st |-> "Q", rc |-> 0]

(* build_peer_block_picture for one peer *)
RECURSIVE AddAll(_, _, _)
AddAll(queue, ann, have) ==
    IF ann = <<>> THEN queue
    ELSE LET a == Head(ann)
             dup == \E k \in DOMAIN queue : queue[k].hash = a[2]   \* a block is its hash; the id is a claim
         IN IF a[2] \in have \/ dup THEN AddAll(queue, Tail(ann), have)
            ELSE AddAll(Append(queue, Entry(a[2], a[1])), Tail(ann), have)

BuildPeer(queue, ann, have) == AddAll(queue, SortSeq(ann, LessPair), have)

(* get_blocks_to_fetch_per_peer for one peer: returns [q, sel] *)
RECURSIVE Walk(_, _, _, _)
Walk(rest, quota, done, sel) ==
    IF rest = <<>> \/ quota = 0 THEN [q |-> done \o rest, sel |-> sel]
    ELSE LET e == Head(rest) IN
         CASE e.st = "Q" ->
                  Walk(Tail(rest), quota - 1, Append(done, [e EXCEPT !.st = "F"]), Append(sel, <<e.hash, e.id>>))
           [] e.st = "X" /\ e.rc < MaxRetries ->
                  Walk(Tail(rest), quota - 1, Append(done, [e EXCEPT !.st = "Q", !.rc = @ + 1]), sel)
           [] e.st = "X" /\ e.rc = MaxRetries ->
                  Walk(Tail(rest), quota, Append(done, [e EXCEPT !.rc = @ + 1]), sel)
           [] OTHER -> Walk(Tail(rest), quota, Append(done, e), sel)

Fetching(queue) == Cardinality({k \in DOMAIN queue : queue[k].st = "F"})

SelectPeer(queue) ==
    LET s == Sorted(queue)
        f == Fetching(s)
    IN \* the implementation computes `batch_size - fetching_count` on unsigned integers
       IF f > Batch THEN [q |-> s, sel |-> <<>>, underflow |-> TRUE]
       ELSE [q |-> Walk(s, Batch - f, <<>>, <<>>).q, sel |-> Walk(s, Batch - f, <<>>, <<>>).sel,
             underflow |-> FALSE]

(* mark_as_fetched: the first entry with that hash of every peer disappears *)
RECURSIVE DropFirst(_, _)
DropFirst(queue, h) ==
    IF queue = <<>> THEN <<>>
    ELSE IF Head(queue).hash = h THEN Tail(queue) ELSE <<Head(queue)>> \o DropFirst(Tail(queue), h)

(* mark_as_failed *)
FailPeer(queue, h, i) ==
    LET ks == {k \in DOMAIN queue : queue[k].hash = h /\ queue[k].id = i} IN
    IF ks = {} THEN queue
    ELSE LET k == CHOOSE x \in ks : \A y \in ks : x <= y IN [queue EXCEPT ![k].st = "X"]

(* remove_entry *)
RemovePeer(queue, h) == SelectSeq(queue, LAMBDA e : e.hash # h)

-----------------------------------------------------------------------------
(* properties of a queue / a selection round (C16) *)
InFlightBounded(queue) == Fetching(queue) <= Batch
NoDuplicateInFlight(queue) ==
    \A a, b \in DOMAIN queue : (a # b /\ queue[a].st = "F" /\ queue[b].st = "F") => queue[a].hash # queue[b].hash
NoDuplicateEntry(queue) ==
    \A a, b \in DOMAIN queue : a # b => queue[a].hash # queue[b].hash
RetriesBounded(queue) == \A k \in DOMAIN queue : queue[k].rc <= MaxRetries + 1

(* a round's selection is in non-decreasing height order and never skips a queued entry *)
RoundOrdered(before, sel) ==
    /\ \A a, b \in DOMAIN sel : a < b => (sel[a][2] < sel[b][2] \/ (sel[a][2] = sel[b][2] /\ sel[a][1] <= sel[b][1]))
    /\ \A k \in DOMAIN before : \A a \in DOMAIN sel :
          (before[k].st = "Q" /\ (before[k].id < sel[a][2] \/ (before[k].id = sel[a][2] /\ before[k].hash < sel[a][1])))
            => \E b \in DOMAIN sel : sel[b] = <<before[k].hash, before[k].id>>
=============================================================================
