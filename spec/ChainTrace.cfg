SPECIFICATION TraceSpec
CONSTANTS
  MaxH = 5
  G = 100
INVARIANT ReportBad
POSTCONDITION TraceDone
CHECK_DEADLOCK FALSE
