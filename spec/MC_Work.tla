------------------------------- MODULE MC_Work -------------------------------
(***************************************************************************)
(* C08, bounded instance: the case space of routing-work gating            *)
(*   path shape x work relative to the requirement x elapsed time class    *)
(* Every case is printed as a scenario for the real node (GEN); the        *)
(* invariants check the design-level statements on the reference           *)
(* definitions of Ledger.tla: the requirement never increases with elapsed *)
(* time and is zero from two heartbeats on; work never exceeds the fee,    *)
(* halves per hop, and is zero unless the path is contiguous and ends at   *)
(* the creator.                                                            *)
(***************************************************************************)
EXTENDS Ledger, Json, Integers

VARIABLE c

Shapes == {"none", "direct", "two", "three", "elsewhere1", "elsewhere2", "broken", "selfhop", "badsig",
           "selfhop_first", "selfhop_mid"}
Deltas == {-1, 0, 1}
DtClasses == {"1ms", "half", "hb-1", "hb", "2hb-1", "2hb", "2hb+1"}
Seeds == {1, 2}
HB == 10000

Path(s) == CASE s = "none" -> <<>>
             [] s = "direct" -> <<"k1", "c">>
             [] s = "three" -> <<"k1", "k2", "k3", "c">>
             [] s = "elsewhere1" -> <<"k1", "k2">>
             [] s = "elsewhere2" -> <<"k1", "k2", "k3">>
             [] s = "selfhop_first" -> <<"c", "c">>            \* the creator routes the transaction to itself
             [] s = "selfhop_mid" -> <<"k1", "k2", "k2", "c">>
             [] OTHER -> <<"k1", "k2", "c">>
EditOf(s) == CASE s = "broken" -> "broken_path" [] s = "selfhop" -> "self_hop" [] s = "badsig" -> "bad_hop_sig" [] OTHER -> ""
(* the hops as the receiver sees them *)
Hops(s) == CASE s = "broken" -> <<<<"k1", "k2">>, <<"m", "c">>>>
             [] s = "selfhop" -> <<<<"k1", "k2">>, <<"k2", "k2">>>>
             [] OTHER -> [i \in 1..(Len(Path(s)) - 1) |-> <<Path(s)[i], Path(s)[i + 1]>>]
PathOk(s) == s \notin {"broken", "selfhop", "badsig", "selfhop_first", "selfhop_mid"}
Delivers(s) == s \in {"direct", "two", "three"}
Dt(d) == CASE d = "1ms" -> 1 [] d = "half" -> HB \div 2 [] d = "hb-1" -> HB - 1 [] d = "hb" -> HB
           [] d = "2hb-1" -> 2 * HB - 1 [] d = "2hb" -> 2 * HB [] d = "2hb+1" -> 2 * HB + 1

(* join: the node starts in the middle of the chain (its first block is b2, it never sees the genesis block): *)
(* it validates without the spendable set, the work rules apply all the same                                 *)
Cases == [shape : Shapes, delta : Deltas, dt : DtClasses, seed : Seeds, join : BOOLEAN]

(* what the rules say about the block of the case: accepted iff every path is valid and the    *)
(* work delivered to the creator meets the requirement                                         *)
Expect(k) == IF PathOk(k.shape) /\ (Dt(k.dt) >= 2 * HB \/ (Delivers(k.shape) /\ k.delta >= 0))
             THEN "accept" ELSE "reject"

Big == 1000000000
Scenario(k) ==
    [g |-> 10, hb |-> HB, keys |-> 3, node_key |-> "k2", replica |-> FALSE, skip_genesis |-> k.join,
     issuance |-> <<<<"k1", Big>>, <<"k1", Big>>, <<"k1", 700000>>, <<"k1", 600000>>, <<"k2", 500000>>>>,
     tag |-> "work-case",
     steps |-> <<
       [op |-> "block", label |-> "b2", parent |-> IF k.join THEN "b1" ELSE "tip", gt |-> TRUE, gap |-> 2, tag |-> "good",
        txs |-> <<[id |-> "t1", signer |-> "k1", ins |-> <<"g2">>, outs |-> <<<<"k1", 0>>>>, fee |-> 3,
                   path |-> <<>>, edit |-> "", tune |-> FALSE]>>],
       [op |-> "block", label |-> "b3", parent |-> IF k.join THEN "b2" ELSE "tip", gt |-> TRUE, dt |-> Dt(k.dt), tune |-> k.delta,
        tag |-> "work:" \o Expect(k) \o ":" \o k.shape \o ":" \o k.dt,
        txs |-> <<[id |-> "t2", signer |-> "k1", ins |-> <<"g0">>, outs |-> <<<<"k2", 0>>>>, fee |-> 0,
                   path |-> Path(k.shape), edit |-> EditOf(k.shape), tune |-> TRUE],
                  [id |-> "t3", signer |-> "k1", ins |-> <<"g3">>, outs |-> <<<<"k3", 0>>>>, fee |-> 5,
                   path |-> <<>>, edit |-> "", tune |-> FALSE]>>],
       [op |-> "block", label |-> "b4", gt |-> TRUE, gap |-> 2, gt_seed |-> k.seed, tag |-> "good",
        txs |-> <<[id |-> "t4", signer |-> "k2", ins |-> <<"g4">>, outs |-> <<<<"k1", 0>>>>, fee |-> 2,
                   path |-> <<"k2", "k3", "c">>, edit |-> "", tune |-> FALSE]>>],
       [op |-> "block", label |-> "b5", gt |-> TRUE, gap |-> 2, gt_seed |-> k.seed + 7, tag |-> "good",
        txs |-> <<[id |-> "t5", signer |-> "k1", ins |-> <<"g1">>, outs |-> <<<<"k1", 0>>>>, fee |-> 1,
                   path |-> <<>>, edit |-> "", tune |-> FALSE]>>]
     >>]

Init == c \in Cases
Next == UNCHANGED c
Spec == Init /\ [][Next]_c

PrintScenario == PrintT(<<"SCN", ToJson(Scenario(c))>>)

(* ---- design-level statements on the reference definitions -------------------------- *)
Fees == {0, 1, 2, 3, 4, 5, 7, 8, 9, 1023, 1024, 1025, 2097151, 2097152, 2097153, 123456789}
Tx(fee, hops) == [ins |-> <<[o |-> "i", owner |-> "k1", amt |-> LimbOfNat(fee + 10), bh |-> 1, kind |-> KNormal]>>,
                  outs |-> <<[o |-> "o", owner |-> "k2", amt |-> LimbOfNat(10), kind |-> KNormal]>>,
                  hops |-> hops, edit |-> ""]
W(fee, s) == WorkOf(Tx(fee, Hops(s)), "c")

WorkShape ==   \* evaluated once per state; quantifies over all fees
    \A f \in Fees :
       /\ LimbEq(W(f, "none"), LimbZero) /\ LimbEq(W(f, "elsewhere1"), LimbZero) /\ LimbEq(W(f, "elsewhere2"), LimbZero)
       /\ LimbEq(W(f, "broken"), LimbZero)
       /\ LimbEq(W(f, "direct"), LimbOfNat(f))
       /\ LimbEq(W(f, "two"), LimbOfNat(f - f \div 2))
       /\ LimbEq(W(f, "three"), LimbOfNat((f - f \div 2) - (f - f \div 2) \div 2))
       /\ LimbLeq(W(f, "three"), W(f, "two")) /\ LimbLeq(W(f, "two"), W(f, "direct"))
WorkMonotoneInFee ==
    \A f, g \in Fees : f <= g => \A s \in {"direct", "two", "three"} : LimbLeq(W(f, s), W(g, s))

Bfs == {0, 1, 2, 99, 10000, 19999, 20000, 50000000, 400000000}
Dts == {1, 2, 3, 4999, 5000, 9999, 10000, 10001, 19998, 19999, 20000, 20001, 40000}
RequirementMonotone ==
    \A bf \in Bfs : \A d1, d2 \in Dts : d1 <= d2 => NeededRef(bf, d2, HB) <= NeededRef(bf, d1, HB)
RequirementZeroAfterTwoHeartbeats ==
    \A bf \in Bfs : \A d \in Dts : d >= 2 * HB => NeededRef(bf, d, HB) = 0
RequirementPositiveBefore ==
    \A d \in Dts : d < 2 * HB => NeededRef(50000000, d, HB) > 0
=============================================================================
