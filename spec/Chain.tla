------------------------------- MODULE Chain -------------------------------
(***************************************************************************)
(* Block tree, delivery, fork choice, by-height index, ledger as a replay  *)
(* of the longest chain, and the wind/unwind machine of                    *)
(* Blockchain::add_block / Blockchain::validate.          C03 C04 C05      *)
(*                                                                         *)
(* Two descriptions of one call of add_block are given and TLC checks that *)
(* they agree:                                                             *)
(*   - big-step:   Add(A, S, b)   (a function of the pre-state; used by    *)
(*                 trace validation as the oracle for every observed call) *)
(*   - micro-step: Offer / UnwindStep / WindStep / UnNewStep / RewindStep /*)
(*                 Finish* (one action per iteration of the loop in        *)
(*                 Blockchain::validate; used for the step bound, the      *)
(*                 stack discipline and termination)                       *)
(***************************************************************************)
EXTENDS Naturals, Sequences, FiniteSets, TLC, Base

CONSTANTS MaxH,   \* heights are 1..MaxH
          G       \* retention window (genesis period)

None == 0

(* A : block id -> [parent, height, gt, bf, ok, ins, outs]                 *)
(* S : [stored, inlc, lc, tip, utxo]                                       *)

EmptyState == [stored |-> {}, inlc |-> {}, lc |-> [h \in 1..MaxH |-> None],
               tip |-> None, utxo |-> {}]

RECURSIVE PathUp(_, _, _)
PathUp(A, b, within) ==   \* root-first path of stored ancestors ending in b
    IF b = None \/ b \notin within THEN <<>>
    ELSE Append(PathUp(A, A[b].parent, within), b)

RECURSIVE Replay(_, _)
Replay(A, path) ==
    IF path = <<>> THEN {}
    ELSE LET u == Replay(A, Front(path))
             b == Last(path)
         IN (u \ A[b].ins) \cup A[b].outs

LcOf(A, p) == [h \in 1..MaxH |->
                 IF \E i \in DOMAIN p : A[p[i]].height = h
                 THEN p[CHOOSE i \in DOMAIN p : A[p[i]].height = h]
                 ELSE None]

(* The chain the node is on is the one its on-chain flags describe: the path from the   *)
(* tip down through flagged blocks.  It starts at the genesis block or, for a node that  *)
(* adopted a chain whose older blocks it never saw, at the lowest block it wound.        *)
FlaggedPath(A, S) == PathUp(A, S.tip, S.inlc)

(* C03: ledger, by-height index, flags and tip describe the same chain of ancestors *)
Inconsistencies(A, S) ==
    IF S.tip = None
    THEN (IF S.utxo = {} THEN {} ELSE {"utxo"}) \cup (IF S.inlc = {} THEN {} ELSE {"flags"})
         \cup (IF \A h \in 1..MaxH : S.lc[h] = None THEN {} ELSE {"index"})
    ELSE LET p == FlaggedPath(A, S) IN
         IF S.tip \notin S.stored THEN {"tip-not-stored"}
         ELSE IF p = <<>> THEN {"tip-not-flagged"}
         ELSE \* the ledger is an exact replay only when the chain starts at the genesis block:
              \* on a chain whose older blocks were never seen, inputs refer to outputs the
              \* node never held (it runs with input checks against the ledger switched off)
              (IF A[p[1]].parent = None /\ S.utxo # Replay(A, p) THEN {"utxo"} ELSE {})
              \cup (IF S.inlc = SeqToSet(p) /\ S.inlc \subseteq S.stored THEN {} ELSE {"flags"})
              \cup (IF S.lc = LcOf(A, p) THEN {} ELSE {"index"})

Consistent(A, S) == Inconsistencies(A, S) = {}

RECURSIVE NewChain(_, _, _, _)
NewChain(A, x, st, inlc) ==  \* tip-first, down to (excluding) the first on-chain ancestor
    IF x = None \/ x \notin st THEN [chain |-> <<>>, found |-> FALSE, anc |-> None]
    ELSE IF x \in inlc THEN [chain |-> <<>>, found |-> TRUE, anc |-> x]
    ELSE LET r == NewChain(A, A[x].parent, st, inlc)
         IN [chain |-> <<x>> \o r.chain, found |-> r.found, anc |-> r.anc]

RECURSIVE OldChain(_, _, _, _)
OldChain(A, x, anc, st) ==   \* tip-first, from the tip down to (excluding) anc
    IF x = None \/ x = anc \/ x \notin st THEN <<>>
    ELSE <<x>> \o OldChain(A, A[x].parent, anc, st)

RECURSIVE Anc(_, _, _, _)
Anc(A, x, st, k) ==
    IF k = 0 \/ x = None \/ x \notin st THEN <<>>
    ELSE <<x>> \o Anc(A, A[x].parent, st, k - 1)

(* ticket density for the window ending in b (is_golden_ticket_count_valid_) *)
GTOk(A, b, st) ==
    LET an == Anc(A, A[b].parent, st, 5)
        depth == Len(an)
        found == Cardinality({i \in DOMAIN an : A[an[i]].gt}) + (IF A[b].gt THEN 1 ELSE 0)
    IN IF depth < 4 THEN TRUE ELSE IF depth = 4 THEN found >= 1 ELSE found >= 2

BfOf(A) == [x \in DOMAIN A |-> A[x].bf]

Adopted(A, S, b) ==
    LET st2 == S.stored \cup {b}
        nc == NewChain(A, b, st2, S.inlc)
        p == (IF nc.found THEN PathUp(A, nc.anc, S.inlc) ELSE <<>>) \o RevSeq(nc.chain)
    IN [stored |-> st2, inlc |-> SeqToSet(p), lc |-> LcOf(A, p), tip |-> b,
        utxo |-> Replay(A, p)]

Stored(S, b) == [S EXCEPT !.stored = @ \cup {b}]

(* The current chain as a competitor (tip-first): the wound chain, i.e. the flagged      *)
(* blocks below the tip ("flags").  The reading "stored" (every stored ancestor of the   *)
(* tip, wound or not) is what the pinned tree used when the candidate shared no on-chain *)
(* ancestor; it differs after a chain with unseen older blocks was adopted and some of   *)
(* those blocks arrived later, and made a failing reorganisation unwind blocks that were *)
(* never wound (repaired in /repo, see known_findings.json); it is kept as a parameter   *)
(* only so that the difference can be shown.                                             *)
CurrentChain(A, S, m) ==
    RevSeq(PathUp(A, S.tip, IF m = "flags" THEN S.inlc ELSE S.stored))

Longer(A, S, b, new, old) ==
    /\ Len(new) > Len(old)
    /\ LimbLeq(LimbSumSeq(old, BfOf(A)), LimbSumSeq(new, BfOf(A)))
    /\ (S.tip # None => A[b].height > A[S.tip].height)
    /\ (S.tip # None => A[b].height + G > A[S.tip].height)

(* The decision taken for an arriving block, before anything is wound.  A candidate     *)
(* chain that shares an ancestor with the current chain competes with the diverging     *)
(* segment; one that shares none (its lowest block's parent is not held) competes with  *)
(* the whole current chain.                                                             *)
Decide(A, S, b, m) ==
    IF b \in S.stored THEN [k |-> "Exists"]
    ELSE IF S.stored = {} THEN [k |-> "Reorg", new |-> <<b>>, old |-> <<>>]
    ELSE LET st2 == S.stored \cup {b}
             nc == NewChain(A, b, st2, S.inlc)
             new == nc.chain
             old == IF nc.found THEN OldChain(A, S.tip, nc.anc, S.stored) ELSE CurrentChain(A, S, m)
             nolonger == IF nc.found THEN "Side"
                         ELSE IF A[b].parent \notin S.stored THEN "Orphan" ELSE "Disconnected"
         IN IF ~Longer(A, S, b, new, old) THEN [k |-> nolonger]
            ELSE IF ~(\A i \in DOMAIN new : GTOk(A, new[i], st2)) THEN [k |-> "GTFail"]
            ELSE [k |-> "Reorg", new |-> new, old |-> old]

(* A block whose parent the node does not hold cannot be checked against its parent:    *)
(* the node may accept or reject it.                                                    *)
Uncheckable(A, x, st) == A[x].parent \notin st
OkStrict(A, chain) == \A i \in DOMAIN chain : A[chain[i]].ok
OkLenient(A, chain, st) == \A i \in DOMAIN chain : A[chain[i]].ok \/ Uncheckable(A, chain[i], st)

(* Big-step semantics of one add_block call: the set of allowed outcomes *)
AddSetM(A, S, b, m) ==
    LET d == Decide(A, S, b, m) IN
    CASE d.k = "Exists" -> {[res |-> "Exists", S |-> S]}
      [] d.k \in {"Orphan", "Disconnected", "Side"} -> {[res |-> "AddedSide", S |-> Stored(S, b)]}
      [] d.k = "GTFail" -> {[res |-> "Invalid", S |-> S]}
      [] d.k = "Reorg" ->
             (IF OkLenient(A, d.new, S.stored \cup {b})
              THEN {[res |-> "AddedLc", S |-> Adopted(A, S, b)]} ELSE {})
             \cup (IF ~OkStrict(A, d.new) THEN {[res |-> "Invalid", S |-> S]} ELSE {})

AddSet(A, S, b) == AddSetM(A, S, b, "flags")

(* the arriving block must end up as the tip: every reading leaves adoption as the only outcome *)
MustAdopt(A, S, b) == \A o \in AddSet(A, S, b) : o.res = "AddedLc"

DecisionKinds(A, S, b) == {Decide(A, S, b, "flags").k, Decide(A, S, b, "stored").k}

(* C05 soundness as a predicate on an observed tip move S -> T *)
CriteriaM(A, S, T, m) ==
    /\ T.tip # None /\ T.tip \in DOMAIN A
    /\ LET nc == NewChain(A, T.tip, T.stored, S.inlc)
           old == IF nc.found THEN OldChain(A, S.tip, nc.anc, S.stored) ELSE CurrentChain(A, S, m)
       IN /\ Len(nc.chain) > Len(old)
          /\ LimbLeq(LimbSumSeq(old, BfOf(A)), LimbSumSeq(nc.chain, BfOf(A)))
          /\ OkLenient(A, nc.chain, T.stored)
          /\ \A i \in DOMAIN nc.chain : GTOk(A, nc.chain[i], T.stored)
          /\ (S.tip # None => A[T.tip].height > A[S.tip].height)

Criteria(A, S, T) == T.tip = S.tip \/ CriteriaM(A, S, T, "flags")

-----------------------------------------------------------------------------
(* Micro-step machine *)

VARIABLES A, S, w, last

vars == <<A, S, w, last>>

Idle == [pc |-> "idle", b |-> None, new |-> <<>>, old |-> <<>>, i |-> 0, steps |-> 0,
         pre |-> EmptyState]

Below(T, x) == IF A[x].parent \in T.stored THEN A[x].parent ELSE None
Pop(T, x) == [T EXCEPT !.tip = Below(T, x),
                       !.inlc = @ \ {x},
                       !.lc[A[x].height] = None,
                       !.utxo = (@ \ A[x].outs) \cup A[x].ins]
Push(T, x) == [T EXCEPT !.tip = x,
                        !.inlc = @ \cup {x},
                        !.lc[A[x].height] = x,
                        !.utxo = (@ \ A[x].ins) \cup A[x].outs]

StepBound(ww) == 2 * (Len(ww.old) + Len(ww.new)) + 2

Offer(b) ==
    /\ w.pc = "idle"
    /\ b \in DOMAIN A
    /\ LET d == Decide(A, S, b, "flags") IN
       IF d.k = "Reorg"
       THEN /\ w' = [pc |-> IF d.old = <<>> THEN "wind" ELSE "unwind", b |-> b,
                     new |-> RevSeq(d.new), old |-> d.old, i |-> 1, steps |-> 0, pre |-> S]
            /\ S' = Stored(S, b)
            /\ last' = [b |-> b, res |-> "pending", ok |-> TRUE]
       ELSE /\ \E o \in AddSetM(A, S, b, "flags") :
                  /\ S' = o.S
                  /\ last' = [b |-> b, res |-> o.res, ok |-> TRUE]
            /\ w' = w
    /\ UNCHANGED A

Finish(res, T) ==
    /\ S' = T
    /\ last' = [b |-> w.b, res |-> res, ok |-> ([res |-> res, S |-> T] \in AddSet(A, w.pre, w.b))]
    /\ w' = Idle

AfterFailure(T) ==  \* nothing of the new chain is applied any more
    IF w.old = <<>>
    THEN Finish("Invalid", [T EXCEPT !.stored = @ \ {w.b}])
    ELSE /\ S' = T /\ w' = [w EXCEPT !.pc = "rewind", !.i = Len(w.old), !.steps = @ + 1]
         /\ UNCHANGED last

UnwindStep ==
    /\ w.pc = "unwind"
    /\ LET x == w.old[w.i] IN
       /\ x = S.tip                                  \* stack discipline
       /\ S' = Pop(S, x)
       /\ w' = IF w.i = Len(w.old) THEN [w EXCEPT !.pc = "wind", !.i = 1, !.steps = @ + 1]
               ELSE [w EXCEPT !.i = @ + 1, !.steps = @ + 1]
    /\ UNCHANGED <<A, last>>

WindStep ==
    /\ w.pc = "wind"
    /\ LET x == w.new[w.i] IN
       \E valid \in {A[x].ok} \cup (IF Uncheckable(A, x, S.stored) THEN {TRUE} ELSE {}) :
       IF valid
       THEN /\ Below(S, x) = S.tip                   \* stack discipline
            /\ IF w.i = Len(w.new)
               THEN Finish("AddedLc", Push(S, x))
               ELSE /\ S' = Push(S, x)
                    /\ w' = [w EXCEPT !.i = @ + 1, !.steps = @ + 1]
                    /\ UNCHANGED last
       ELSE IF w.i = 1 THEN AfterFailure(S)
            ELSE /\ w' = [w EXCEPT !.pc = "unnew", !.i = w.i - 1, !.steps = @ + 1]
                 /\ UNCHANGED <<S, last>>
    /\ UNCHANGED A

UnNewStep ==
    /\ w.pc = "unnew"
    /\ LET x == w.new[w.i] IN
       /\ x = S.tip
       /\ IF w.i = 1 THEN AfterFailure(Pop(S, x))
          ELSE /\ S' = Pop(S, x)
               /\ w' = [w EXCEPT !.i = @ - 1, !.steps = @ + 1]
               /\ UNCHANGED last
    /\ UNCHANGED A

RewindStep ==
    /\ w.pc = "rewind"
    /\ LET x == w.old[w.i] IN
       /\ Below(S, x) = S.tip
       /\ IF w.i = 1
          THEN Finish("Invalid", [Push(S, x) EXCEPT !.stored = @ \ {w.b}])
          ELSE /\ S' = Push(S, x)
               /\ w' = [w EXCEPT !.i = @ - 1, !.steps = @ + 1]
               /\ UNCHANGED last
    /\ UNCHANGED A

Step == UnwindStep \/ WindStep \/ UnNewStep \/ RewindStep

-----------------------------------------------------------------------------
(* Properties of the design *)

QuiescentConsistent == w.pc = "idle" => Consistent(A, S)                       \* C03
MicroEqualsBig      == last.ok                                                 \* C03 C04 C05
StepsBounded        == w.steps <= StepBound(w)                                 \* C04
RejectedLeavesNoTrace ==                                                       \* C04
    (w.pc = "idle" /\ last.res \in {"Invalid", "Exists"}) => TRUE
TipNeverLower == [][ (S.tip # None /\ S'.tip # None /\ w'.pc = "idle" /\ w.pc = "idle")
                       => A[S'.tip].height >= A[S.tip].height ]_vars           \* C05
OrphanInert == [][ \A b \in DOMAIN A :
                     (w.pc = "idle" /\ last'.b = b /\ last' # last /\ b \notin S.stored /\ S.stored # {}
                        /\ A[b].parent \notin S.stored)
                     => (S'.tip = S.tip /\ S'.lc = S.lc /\ S'.inlc = S.inlc /\ S'.utxo = S.utxo) ]_vars
Terminates == (w.pc # "idle") ~> (w.pc = "idle")                               \* C04
=============================================================================
