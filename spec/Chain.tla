------------------------------- MODULE Chain -------------------------------
(***************************************************************************)
(* Block tree, delivery, fork choice, by-height index, ledger as a replay  *)
(* of the longest chain, and the wind/unwind machine of                    *)
(* Blockchain::add_block / Blockchain::validate.          C03 C04 C05      *)
(*                                                                         *)
(* Two descriptions of one call of add_block are given and TLC checks that *)
(* they agree:                                                             *)
(*   - big-step:   Add(A, S, b)   (a function of the pre-state; used by    *)
(*                 trace validation as the oracle for every observed call) *)
(*   - micro-step: Offer / UnwindStep / WindStep / UnNewStep / RewindStep /*)
(*                 Finish* (one action per iteration of the loop in        *)
(*                 Blockchain::validate; used for the step bound, the      *)
(*                 stack discipline and termination)                       *)
(***************************************************************************)
EXTENDS Naturals, Sequences, FiniteSets, TLC, Base

CONSTANTS MaxH,   \* heights are 1..MaxH
          G       \* retention window (genesis period)

None == 0

(* A : block id -> [parent, height, gt, bf, ok, ins, outs]                 *)
(* S : [stored, inlc, lc, tip, utxo]                                       *)

(* top: the greatest height ever wound (the code's last_block_id); it never decreases *)
(* loaded: the node has finished its initial loading (a constant of a behaviour): from then on *)
(* a block whose parent it does not hold is not stored but answered with a fetch of the parent *)
EmptyState == [stored |-> {}, inlc |-> {}, lc |-> [h \in 1..MaxH |-> None],
               tip |-> None, utxo |-> {}, top |-> 0, loaded |-> FALSE]

RECURSIVE PathUp(_, _, _)
PathUp(A, b, within) ==   \* root-first path of stored ancestors ending in b
    IF b = None \/ b \notin within THEN <<>>
    ELSE Append(PathUp(A, A[b].parent, within), b)

RECURSIVE Replay(_, _)
Replay(A, path) ==
    IF path = <<>> THEN {}
    ELSE LET u == Replay(A, Front(path))
             b == Last(path)
         IN (u \ A[b].ins) \cup A[b].outs

LcOf(A, p) == [h \in 1..MaxH |->
                 IF \E i \in DOMAIN p : A[p[i]].height = h
                 THEN p[CHOOSE i \in DOMAIN p : A[p[i]].height = h]
                 ELSE None]

(* The chain the node is on is the one its on-chain flags describe: the path from the   *)
(* tip down through flagged blocks.  It starts at the genesis block or, for a node that  *)
(* adopted a chain whose older blocks it never saw, at the lowest block it wound.        *)
FlaggedPath(A, S) == PathUp(A, S.tip, S.inlc)

StaleOuts(A, S) == UNION {A[x].outs : x \in {y \in DOMAIN A : A[y].height + 2 * G <= S.top}}
NormState(A, S) == [S EXCEPT !.utxo = @ \ StaleOuts(A, S), !.top = 0]

(* C03: ledger, by-height index, flags and tip describe the same chain of ancestors.       *)
(* `trusted`: the caller knows that the node never adopted a chain without known ancestors; *)
(* then a chain that starts at the retention horizon (the node purged the older blocks       *)
(* itself) is as good as one that starts at the genesis block.                               *)
InconsistenciesT(A, S, trusted) ==
    IF S.tip = None
    THEN (IF S.utxo = {} THEN {} ELSE {"utxo"}) \cup (IF S.inlc = {} THEN {} ELSE {"flags"})
         \cup (IF \A h \in 1..MaxH : S.lc[h] = None THEN {} ELSE {"index"})
    ELSE LET p == FlaggedPath(A, S) IN
         IF S.tip \notin S.stored THEN {"tip-not-stored"}
         ELSE IF p = <<>> THEN {"tip-not-flagged"}
         ELSE \* the ledger is an exact replay only when the chain starts at the genesis block:
              \* on a chain whose older blocks were never seen, inputs refer to outputs the
              \* node never held (it runs with input checks against the ledger switched off)
              LET rooted == A[p[1]].parent = None
                            \/ (trusted /\ A[p[1]].height + 2 * G = A[S.tip].height + 1)
                  \* outputs of blocks below the retention horizon can no longer be spent; whether
                  \* their entries are still physically in the map depends on whether the block's
                  \* transactions were in memory when it was purged - they are not compared
                  stale == StaleOuts(A, S)
              IN (IF rooted /\ S.utxo \ stale # Replay(A, p) \ stale THEN {"utxo"} ELSE {})
                 \* flagged: the blocks of the chain - and possibly ancestors of it that lie below
                 \* the retention horizon and were never purged (a competing chain longer than 2G
                 \* that was wound from stored side blocks: only new maximum heights purge)
                 \cup (IF /\ SeqToSet(p) \subseteq S.inlc /\ S.inlc \subseteq S.stored
                          /\ \A x \in S.inlc \ SeqToSet(p) :
                                /\ A[x].height + 2 * G <= A[S.tip].height
                                /\ x \in SeqToSet(PathUp(A, S.tip, DOMAIN A))
                       THEN {} ELSE {"flags"})
                 \* the index is a ring of 2G slots: it lists the chain for the last 2G heights;
                 \* a lower height is either absent or still lists the chain's block
                 \cup (IF \A h \in 1..MaxH :
                            \/ S.lc[h] = LcOf(A, p)[h]
                            \/ (h + 2 * G <= A[S.tip].height /\ S.lc[h] = None)
                       THEN {} ELSE {"index"})
Inconsistencies(A, S) == InconsistenciesT(A, S, FALSE)

Consistent(A, S) == Inconsistencies(A, S) = {}

RECURSIVE NewChain(_, _, _, _)
NewChain(A, x, st, inlc) ==  \* tip-first, down to (excluding) the first on-chain ancestor
    IF x = None \/ x \notin st THEN [chain |-> <<>>, found |-> FALSE, anc |-> None]
    ELSE IF x \in inlc THEN [chain |-> <<>>, found |-> TRUE, anc |-> x]
    ELSE LET r == NewChain(A, A[x].parent, st, inlc)
         IN [chain |-> <<x>> \o r.chain, found |-> r.found, anc |-> r.anc]

RECURSIVE OldChain(_, _, _, _)
OldChain(A, x, anc, st) ==   \* tip-first, from the tip down to (excluding) anc
    IF x = None \/ x = anc \/ x \notin st THEN <<>>
    ELSE <<x>> \o OldChain(A, A[x].parent, anc, st)

RECURSIVE Anc(_, _, _, _)
Anc(A, x, st, k) ==
    IF k = 0 \/ x = None \/ x \notin st THEN <<>>
    ELSE <<x>> \o Anc(A, A[x].parent, st, k - 1)

(* ticket density for the window ending in b (is_golden_ticket_count_valid_) *)
GTOk(A, b, st) ==
    LET an == Anc(A, A[b].parent, st, 5)
        depth == Len(an)
        found == Cardinality({i \in DOMAIN an : A[an[i]].gt}) + (IF A[b].gt THEN 1 ELSE 0)
    IN IF depth < 4 THEN TRUE ELSE IF depth = 4 THEN found >= 1 ELSE found >= 2

BfOf(A) == [x \in DOMAIN A |-> A[x].bf]

(* Retention: winding a block at height h > 2G deletes every stored block of height h - 2G  *)
(* (all forks), its index entry and whatever outputs of it are still in the ledger.          *)
DeadHeights(A, wound) == {h \in 1..MaxH : \E x \in wound : A[x].height = h + 2 * G}
PurgeHeights(A, T, hs) ==
    LET dead == {x \in T.stored : A[x].height \in hs} IN
    [T EXCEPT !.stored = @ \ dead, !.inlc = @ \ dead,
              !.lc = [h \in 1..MaxH |-> IF h \in hs THEN None ELSE @[h]],
              !.utxo = @ \ UNION {A[x].outs : x \in dead}]

(* unwinding / winding one block (the micro-steps of the machine below) *)
BelowA(A, T, x) == IF A[x].parent \in T.stored THEN A[x].parent ELSE None
PopA(A, T, x) == [T EXCEPT !.tip = BelowA(A, T, x),
                          !.inlc = @ \ {x},
                          !.lc[A[x].height] = None,
                          !.utxo = (@ \ A[x].outs) \cup A[x].ins]
(* Winding x.  The by-height index is a ring of 2G slots with ONE on-chain marker per slot: *)
(* marking height h unmarks h - 2G, h - 4G, ...  Blocks that leave the retention window are   *)
(* purged only when the height is a new maximum (re-winding known heights purges nothing).    *)
PushA(A, T, x) ==
    LET h == A[x].height
        T1 == [T EXCEPT !.tip = x,
                        !.inlc = @ \cup {x},
                        !.lc = [hh \in 1..MaxH |-> IF hh = h THEN x
                                                   ELSE IF hh < h /\ (h - hh) % (2 * G) = 0 THEN None
                                                   ELSE @[hh]],
                        !.utxo = (@ \ A[x].ins) \cup A[x].outs,
                        !.top = IF h > @ THEN h ELSE @]
    IN IF h > T.top THEN PurgeHeights(A, T1, DeadHeights(A, {x})) ELSE T1
RECURSIVE ApplySeq(_, _, _, _)
ApplySeq(A, T, seq, push) ==
    IF seq = <<>> THEN T
    ELSE ApplySeq(A, IF push THEN PushA(A, T, Head(seq)) ELSE PopA(A, T, Head(seq)), Tail(seq), push)

(* What a reorganisation that fails at wo[i] leaves behind: the old chain (tip-first) unwound,  *)
(* the blocks before the failing one wound and unwound again, the old chain re-wound.  On a     *)
(* chain rooted in genesis and shorter than 2G this is the state before the call; otherwise it  *)
(* is not (purges are not undone; on a chain without known ancestors unwinding a block inserts  *)
(* inputs that were never in the ledger) - see RejectedLeavesNoTrace.                           *)
FailState(A, S, old, wo, i) ==
    LET pre == SubSeq(wo, 1, i - 1)
        T1 == ApplySeq(A, S, old, FALSE)
        T2 == ApplySeq(A, T1, pre, TRUE)
        T3 == ApplySeq(A, T2, RevSeq(pre), FALSE)
    IN ApplySeq(A, T3, RevSeq(old), TRUE)

(* A successful reorganisation: the old chain (tip-first) unwound, the new chain wound.  On a  *)
(* consistent state rooted in genesis the result is the replay of the new tip's ancestors      *)
(* (QuiescentConsistent); the ledger is updated incrementally, so garbage left by an earlier   *)
(* attempt on a chain without known ancestors is carried along.                                *)
Adopted(A, S, b, old, new) ==
    ApplySeq(A, ApplySeq(A, [S EXCEPT !.stored = @ \cup {b}], old, FALSE), RevSeq(new), TRUE)

Stored(S, b) == [S EXCEPT !.stored = @ \cup {b}]

(* The current chain as a competitor (tip-first): the wound chain, i.e. the flagged      *)
(* blocks below the tip ("flags").  The reading "stored" (every stored ancestor of the   *)
(* tip, wound or not) is what the pinned tree used when the candidate shared no on-chain *)
(* ancestor; it differs after a chain with unseen older blocks was adopted and some of   *)
(* those blocks arrived later, and made a failing reorganisation unwind blocks that were *)
(* never wound (repaired in /repo, see known_findings.json); it is kept as a parameter   *)
(* only so that the difference can be shown.                                             *)
CurrentChain(A, S, m) ==
    RevSeq(PathUp(A, S.tip, IF m = "flags" THEN S.inlc ELSE S.stored))

Longer(A, S, b, new, old) ==
    /\ Len(new) > Len(old)
    /\ LimbLeq(LimbSumSeq(old, BfOf(A)), LimbSumSeq(new, BfOf(A)))
    /\ (S.tip # None => A[b].height > A[S.tip].height)
    /\ (S.tip # None => A[b].height + G > A[S.tip].height)

(* The decision taken for an arriving block, before anything is wound.  A candidate     *)
(* chain that shares an ancestor with the current chain competes with the diverging     *)
(* segment; one that shares none (its lowest block's parent is not held) competes with  *)
(* the whole current chain.                                                             *)
Decide(A, S, b, m) ==
    IF b \in S.stored THEN [k |-> "Exists"]
    ELSE IF S.stored = {} THEN [k |-> "Reorg", new |-> <<b>>, old |-> <<>>]
    ELSE IF S.loaded /\ A[b].parent # None /\ A[b].parent \notin S.stored THEN [k |-> "Retry"]
    ELSE LET st2 == S.stored \cup {b}
             nc == NewChain(A, b, st2, S.inlc)
             new == nc.chain
             old == IF nc.found THEN OldChain(A, S.tip, nc.anc, S.stored) ELSE CurrentChain(A, S, m)
             nolonger == IF nc.found THEN "Side"
                         ELSE IF A[b].parent \notin S.stored THEN "Orphan" ELSE "Disconnected"
         IN IF ~Longer(A, S, b, new, old) THEN [k |-> nolonger]
            ELSE IF ~(\A i \in DOMAIN new : GTOk(A, new[i], st2)) THEN [k |-> "GTFail"]
            ELSE [k |-> "Reorg", new |-> new, old |-> old]

(* A block whose parent the node does not hold cannot be checked against its parent:    *)
(* the node may accept or reject it.                                                    *)
Uncheckable(A, x, st) == A[x].parent \notin st
OkStrict(A, chain) == \A i \in DOMAIN chain : A[chain[i]].ok
OkLenient(A, chain, st) == \A i \in DOMAIN chain : A[chain[i]].ok \/ Uncheckable(A, chain[i], st)

(* Big-step semantics of one add_block call: the set of allowed outcomes *)
AddSetM(A, S, b, m) ==
    LET d == Decide(A, S, b, m) IN
    CASE d.k = "Exists" -> {[res |-> "Exists", S |-> S]}
      [] d.k \in {"Orphan", "Disconnected", "Side"} -> {[res |-> "AddedSide", S |-> Stored(S, b)]}
      [] d.k = "GTFail" -> {[res |-> "Invalid", S |-> S]}
      \* not stored: the caller is told to fetch the parent (or the chain), or, when the block lies
      \* below the retention window of the tip, that it is too old
      [] d.k = "Retry" -> {[res |-> IF S.tip = None \/ A[S.tip].height <= G \/ A[b].height + G > A[S.tip].height
                                    THEN "Retry" ELSE "Invalid", S |-> S]}
      [] d.k = "Reorg" ->
             (IF OkLenient(A, d.new, S.stored \cup {b})
              THEN {[res |-> "AddedLc", S |-> Adopted(A, S, b, d.old, d.new)]} ELSE {})
             \cup
             \* The attempt fails at the first block (in wind order) that does not validate.  What
             \* the code leaves behind is the old state - except that the blocks it wound before
             \* the failure already purged what left the retention window FOR THEM (deviation from
             \* "a rejected block leaves no trace", see RejectedLeavesNoTrace; no difference while
             \* chains are shorter than 2G)
             LET wo == RevSeq(d.new)
                 st == S.stored \cup {b}
                 passes(i) == A[wo[i]].ok \/ Uncheckable(A, wo[i], st)
                 failpts == {i \in DOMAIN wo : ~A[wo[i]].ok /\ \A j \in 1..(i - 1) : passes(j)}
             IN {[res |-> "Invalid", S |-> FailState(A, S, d.old, wo, i)] : i \in failpts}

(* Deviation (known finding): blocks wound before the failure may already have purged blocks  *)
(* of the old chain (or of the new chain itself); unwinding / re-winding a block that is gone   *)
(* aborts the node.  Needs a candidate chain that reaches 2G above blocks of the node's chain.  *)
PanicPossible(A, S, b) ==
    LET d == Decide(A, S, b, "flags") IN
    /\ d.k = "Reorg"
    /\ LET wo == RevSeq(d.new)
           st == S.stored \cup {b}
           passes(i) == A[wo[i]].ok \/ Uncheckable(A, wo[i], st)
           failpts == {i \in DOMAIN wo : ~A[wo[i]].ok /\ \A j \in 1..(i - 1) : passes(j)}
       IN \E i \in failpts :
             LET dead == DeadHeights(A, {wo[j] : j \in 1..(i - 1)})
             IN \E x \in SeqToSet(d.old) \cup {wo[j] : j \in 1..(i - 1)} : A[x].height \in dead

(* the call attempts to move the node onto a chain that shares no block with the current one *)
DetachedReorg(A, S, b) ==
    LET d == Decide(A, S, b, "flags") IN
    d.k = "Reorg" /\ S.stored # {} /\ ~NewChain(A, b, S.stored \cup {b}, S.inlc).found

AddSet(A, S, b) == AddSetM(A, S, b, "flags")

(* the arriving block must end up as the tip: every reading leaves adoption as the only outcome *)
MustAdopt(A, S, b) == \A o \in AddSet(A, S, b) : o.res = "AddedLc"

DecisionKinds(A, S, b) == {Decide(A, S, b, "flags").k, Decide(A, S, b, "stored").k}

(* C05 soundness as a predicate on an observed tip move S -> T *)
CriteriaM(A, S, T, m) ==
    /\ T.tip # None /\ T.tip \in DOMAIN A
    /\ LET st == S.stored \cup {T.tip}     \* what was stored when the decision was taken (winding purges)
           nc == NewChain(A, T.tip, st, S.inlc)
           old == IF nc.found THEN OldChain(A, S.tip, nc.anc, S.stored) ELSE CurrentChain(A, S, m)
       IN /\ Len(nc.chain) > Len(old)
          /\ LimbLeq(LimbSumSeq(old, BfOf(A)), LimbSumSeq(nc.chain, BfOf(A)))
          /\ OkLenient(A, nc.chain, st)
          /\ \A i \in DOMAIN nc.chain : GTOk(A, nc.chain[i], st)
          /\ (S.tip # None => A[T.tip].height > A[S.tip].height)

Criteria(A, S, T) == T.tip = S.tip \/ CriteriaM(A, S, T, "flags")

-----------------------------------------------------------------------------
(* Micro-step machine *)

VARIABLES A, S, w, last

vars == <<A, S, w, last>>

Idle == [pc |-> "idle", b |-> None, new |-> <<>>, old |-> <<>>, i |-> 0, steps |-> 0,
         pre |-> EmptyState]

Below(T, x) == BelowA(A, T, x)
Pop(T, x) == PopA(A, T, x)
Push(T, x) == PushA(A, T, x)

StepBound(ww) == 2 * (Len(ww.old) + Len(ww.new)) + 2

Offer(b) ==
    /\ w.pc = "idle"
    /\ last.res # "Panic"                          \* an aborted node takes no more blocks
    /\ b \in DOMAIN A
    /\ LET d == Decide(A, S, b, "flags") IN
       IF d.k = "Reorg"
       THEN /\ w' = [pc |-> IF d.old = <<>> THEN "wind" ELSE "unwind", b |-> b,
                     new |-> RevSeq(d.new), old |-> d.old, i |-> 1, steps |-> 0, pre |-> S]
            /\ S' = Stored(S, b)
            /\ last' = [b |-> b, res |-> "pending", ok |-> TRUE, same |-> TRUE,
                        det |-> last.det \/ DetachedReorg(A, S, b)]
       ELSE /\ \E o \in AddSetM(A, S, b, "flags") :
                  /\ S' = o.S
                  /\ last' = [b |-> b, res |-> o.res, ok |-> TRUE, same |-> ([o.S EXCEPT !.top = 0] = [S EXCEPT !.top = 0]), det |-> last.det]
            /\ w' = w
    /\ UNCHANGED A

Finish(res, T) ==
    /\ S' = T
    /\ last' = [b |-> w.b, res |-> res,
                ok |-> IF res = "Panic" THEN PanicPossible(A, w.pre, w.b)
                       ELSE ([res |-> res, S |-> T] \in AddSet(A, w.pre, w.b)) \/ PanicPossible(A, w.pre, w.b),
                same |-> ([T EXCEPT !.top = 0] = [w.pre EXCEPT !.top = 0]), det |-> last.det]
    /\ w' = Idle

AfterFailure(T) ==  \* nothing of the new chain is applied any more
    IF w.old = <<>>
    THEN Finish("Invalid", [T EXCEPT !.stored = @ \ {w.b}])
    ELSE /\ S' = T /\ w' = [w EXCEPT !.pc = "rewind", !.i = Len(w.old), !.steps = @ + 1]
         /\ UNCHANGED last

UnwindStep ==
    /\ w.pc = "unwind"
    /\ LET x == w.old[w.i] IN
       /\ x = S.tip                                  \* stack discipline
       /\ S' = Pop(S, x)
       /\ w' = IF w.i = Len(w.old) THEN [w EXCEPT !.pc = "wind", !.i = 1, !.steps = @ + 1]
               ELSE [w EXCEPT !.i = @ + 1, !.steps = @ + 1]
    /\ UNCHANGED <<A, last>>

WindStep ==
    /\ w.pc = "wind"
    /\ w.new[w.i] \in S.stored
    /\ LET x == w.new[w.i] IN
       \E valid \in {A[x].ok} \cup (IF Uncheckable(A, x, S.stored) THEN {TRUE} ELSE {}) :
       IF valid
       THEN /\ Below(S, x) = S.tip                   \* stack discipline
            /\ IF w.i = Len(w.new)
               THEN Finish("AddedLc", Push(S, x))
               ELSE /\ S' = Push(S, x)
                    /\ w' = [w EXCEPT !.i = @ + 1, !.steps = @ + 1]
                    /\ UNCHANGED last
       ELSE IF w.i = 1 THEN AfterFailure(S)
            ELSE /\ w' = [w EXCEPT !.pc = "unnew", !.i = w.i - 1, !.steps = @ + 1]
                 /\ UNCHANGED <<S, last>>
    /\ UNCHANGED A

UnNewStep ==
    /\ w.pc = "unnew"
    /\ w.new[w.i] \in S.stored
    /\ LET x == w.new[w.i] IN
       /\ x = S.tip
       /\ IF w.i = 1 THEN AfterFailure(Pop(S, x))
          ELSE /\ S' = Pop(S, x)
               /\ w' = [w EXCEPT !.i = @ - 1, !.steps = @ + 1]
               /\ UNCHANGED last
    /\ UNCHANGED A

RewindStep ==
    /\ w.pc = "rewind"
    /\ w.old[w.i] \in S.stored
    /\ LET x == w.old[w.i] IN
       /\ Below(S, x) = S.tip
       /\ IF w.i = 1
          THEN Finish("Invalid", [Push(S, x) EXCEPT !.stored = @ \ {w.b}])
          ELSE /\ S' = Push(S, x)
               /\ w' = [w EXCEPT !.i = @ - 1, !.steps = @ + 1]
               /\ UNCHANGED last
    /\ UNCHANGED A

(* the block to (un)wind next was purged by a block wound earlier in this very call *)
CrashStep ==
    /\ w.pc \in {"wind", "unnew", "rewind"}
    /\ (IF w.pc = "rewind" THEN w.old[w.i] ELSE w.new[w.i]) \notin S.stored
    /\ Finish("Panic", S)
    /\ UNCHANGED A

Step == UnwindStep \/ WindStep \/ UnNewStep \/ RewindStep \/ CrashStep

-----------------------------------------------------------------------------
(* Properties of the design *)

(* C03.  Once the node has tried a chain without known ancestors its ledger is no longer an  *)
(* exact replay (known finding); flags, index and tip still have to agree.                     *)
QuiescentConsistent ==
    (w.pc = "idle" /\ last.res # "Panic") =>
        InconsistenciesT(A, S, ~last.det) \ (IF last.det THEN {"utxo"} ELSE {}) = {}
MicroEqualsBig      == last.ok                                                 \* C03 C04 C05
StepsBounded        == w.steps <= StepBound(w)                                 \* C04
RejectedLeavesNoTrace ==                                                       \* C04
    (w.pc = "idle" /\ last.res \in {"Invalid", "Exists"}) => last.same
(* the same, outside the two regimes of the known findings: chains shorter than 2G (MaxH <= 2G *)
(* in the instance) and no attempt on a chain without known ancestors                          *)
RejectedLeavesNoTraceRooted ==
    (w.pc = "idle" /\ last.res \in {"Invalid", "Exists"} /\ ~last.det) => last.same
TipNeverLower == [][ (S.tip # None /\ S'.tip # None /\ w'.pc = "idle" /\ w.pc = "idle")
                       => A[S'.tip].height >= A[S.tip].height ]_vars           \* C05
OrphanInert == [][ \A b \in DOMAIN A :
                     (w.pc = "idle" /\ last'.b = b /\ last' # last /\ b \notin S.stored /\ S.stored # {}
                        /\ A[b].parent \notin S.stored)
                     => (S'.tip = S.tip /\ S'.lc = S.lc /\ S'.inlc = S.inlc /\ S'.utxo = S.utxo) ]_vars
Terminates == (w.pc # "idle") ~> (w.pc = "idle")                               \* C04
NoPanic == last.res # "Panic"                                                  \* C04 / C11
=============================================================================
