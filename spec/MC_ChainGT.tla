---------------------------- MODULE MC_ChainGT ----------------------------
(* Golden-ticket density (C05): a main chain 1..M in which every block from MainFrom on   *)
(* carries a ticket (MainFrom = 2: a dense chain; MainFrom = F: the window that straddles  *)
(* the fork point holds exactly one ticket of the shared prefix), and a side chain of K    *)
(* blocks forking after block F with EVERY ticket placement; the two branches are          *)
(* delivered in every interleaving that keeps each branch in order.                        *)
EXTENDS Chain, Json

CONSTANTS M, K, F, MaxLen, MainFrom

VARIABLE h
mcvars == <<A, S, w, last, h>>

Blocks == 1..(M + K)
Par(b) == IF b = 1 THEN 0 ELSE IF b <= M THEN b - 1 ELSE IF b = M + 1 THEN F ELSE b - 1
Hgt(b) == IF b <= M THEN b ELSE F + (b - M)

MkA(gtf) ==
    [b \in Blocks |->
        [parent |-> Par(b), height |-> Hgt(b), gt |-> gtf[b], bf |-> <<0, 0, 2>>, ok |-> TRUE,
         ins |-> IF b = 1 THEN {} ELSE {<<"g", b>>},
         outs |-> IF b = 1 THEN {<<"g", c>> : c \in 2..(M + K)} ELSE {<<"o", b>>}]]

MCInit ==
    /\ \E gtf \in [Blocks -> BOOLEAN] :
          /\ \A b \in 1..M : gtf[b] = (b >= MainFrom)
          /\ A = MkA(gtf)
    /\ S = EmptyState /\ w = Idle
    /\ last = [b |-> None, res |-> "none", ok |-> TRUE, same |-> TRUE, det |-> FALSE]
    /\ h = <<>>

Delivered == {h[i] : i \in DOMAIN h}

Deliver(b) ==
    /\ Len(h) < MaxLen
    /\ b \notin Delivered
    /\ (b # 1 /\ b # M + 1) => (b - 1) \in Delivered
    /\ b = M + 1 => F \in Delivered
    /\ Offer(b)
    /\ h' = Append(h, b)

MCUnwind == UnwindStep /\ UNCHANGED h
MCWind   == WindStep /\ UNCHANGED h
MCUnNew  == UnNewStep /\ UNCHANGED h
MCRewind == RewindStep /\ UNCHANGED h
MCCrash  == CrashStep /\ UNCHANGED h
MCNext == (\E b \in Blocks : Deliver(b)) \/ MCUnwind \/ MCWind \/ MCUnNew \/ MCRewind \/ MCCrash
MCSpec == MCInit /\ [][MCNext]_mcvars /\ WF_mcvars(MCUnwind \/ MCWind \/ MCUnNew \/ MCRewind \/ MCCrash)

Done == w.pc = "idle" /\ Len(h) = MaxLen
Scenario == [blocks |-> [b \in Blocks |-> [id |-> b, parent |-> A[b].parent, gt |-> A[b].gt,
                                            w |-> 2, ok |-> TRUE]],
             order |-> h]
PrintScenario == Done => PrintT(<<"SCN", ToJson(Scenario)>>)

(* C05: every window of six consecutive blocks of the adopted chain, past the start-up *)
(* phase, holds at least two tickets                                                   *)
DensityOnChain ==
    w.pc = "idle" =>
        LET p == FlaggedPath(A, S) IN
        \A i \in DOMAIN p : i >= 6 =>
            Cardinality({j \in (i - 5)..i : A[p[j]].gt}) >= 2
=============================================================================
