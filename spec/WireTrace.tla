----------------------------- MODULE WireTrace -----------------------------
(* Trace validation for Wire (C09, C10).                                                 *)
(* Codec events: the bytes the real encoder produced must equal the reference encoding   *)
(* Enc(fmt, v) of the value's fields, the re-decoded value must have the same fields,    *)
(* the predicted size must be the real one, identity must survive.                       *)
(* Decode events: every decoder call on malformed input returns (no panic) within the    *)
(* allocation budget 16*len + 4096.                                                      *)
EXTENDS Wire, Json, IOUtils

Rec == ndJsonDeserialize(IOEnv.TRACE)
VARIABLES l, bad
tvars == <<l, bad>>
Bad(e, prop, why) == [pos |-> l, scn |-> e.scn, i |-> e.i, prop |-> prop, why |-> why, res |-> e.res]
IsPanic(res) == Len(res) >= 6 /\ SubSeq(res, 1, 6) = "Panic:"

CodecChecks(e) ==
    IF IsPanic(e.res) THEN {Bad(e, "C09", "panic-on-valid-value")} ELSE
    LET ref == Enc(e.fmt, e.v) IN
    (IF e.hex # ref THEN {Bad(e, "C09", "encoding-differs-from-reference-layout:" \o e.fmt)} ELSE {})
    \cup (IF ~e.dec_ok THEN {Bad(e, "C09", "valid-encoding-rejected:" \o e.fmt)}
          ELSE IF e.dec # e.v THEN {Bad(e, "C09", "decoded-value-differs:" \o e.fmt)} ELSE {})
    \cup (IF e.predicted # ByteLen(e.hex) THEN {Bad(e, "C09", "predicted-size-wrong:" \o e.fmt)} ELSE {})
    \cup (IF "reenc" \in DOMAIN e.flags /\ ~e.flags.reenc /\ e.dec_ok
          THEN {Bad(e, "C09", "re-encoding-differs:" \o e.fmt)} ELSE {})
    \cup (IF "hash_same" \in DOMAIN e.flags /\ ~e.flags.hash_same THEN {Bad(e, "C09", "hash-changed-across-wire:" \o e.fmt)} ELSE {})
    \cup (IF "derived_same" \in DOMAIN e.flags /\ ~e.flags.derived_same THEN {Bad(e, "C09", "block-differs-after-prune-and-reload-from-disk")} ELSE {})
    \cup (IF "header_same" \in DOMAIN e.flags /\ ~e.flags.header_same THEN {Bad(e, "C09", "lite-block-header-differs-across-wire")} ELSE {})
    \cup (IF "sig_same" \in DOMAIN e.flags /\ ~e.flags.sig_same THEN {Bad(e, "C09", "signature-verdict-changed-across-wire:" \o e.fmt)} ELSE {})

DecodeChecks(e) ==
    (IF IsPanic(e.res) THEN {Bad(e, "C10", "decoder-panicked:" \o e.dec)} ELSE {})
    \cup (IF e.peak > 16 * e.len + 4096 THEN {Bad(e, "C10", "decoder-allocated-more-than-16x-input:" \o e.dec)} ELSE {})

TraceInit == l = 1 /\ bad = {}
TraceNext == /\ l <= Len(Rec)
             /\ bad' = CASE Rec[l].ev = "Codec" -> bad \cup CodecChecks(Rec[l])
                         [] Rec[l].ev = "Decode" -> bad \cup DecodeChecks(Rec[l])
                         [] OTHER -> bad
             /\ l' = l + 1
TraceSpec == TraceInit /\ [][TraceNext]_tvars
TraceDone == PrintT(<<"TRACE-CONSUMED", TLCGet("stats").diameter - 1, Len(Rec)>>)
ReportBad == (l = Len(Rec) + 1) => \A x \in bad : PrintT(<<"BAD", ToJson(x)>>)
=============================================================================
