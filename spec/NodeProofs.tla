----------------------------- MODULE NodeProofs -----------------------------
(* TLAPS: non-interference of the node model for ANY set of connections, chain length and budget:  *)
(* in a well-typed state a step taken by a hostile connection leaves HonestView unchanged.         *)
(* (NodeP is Node.tla with the recursive operator Climb declared instead of defined - tlapm does   *)
(* not accept RECURSIVE definitions; the driver regenerates it from Node.tla before every run.)    *)
EXTENDS NodeP, TLAPS

ASSUME HonestSubset == Honest \subseteq Conns

THEOREM HostileStepKeepsHonestView == TypeOK /\ HostileStep => HonestView' = HonestView
<1> SUFFICES ASSUME TypeOK, HostileStep PROVE HonestView' = HonestView
  OBVIOUS
<1> USE HonestSubset DEF HonestView, Hostile, TypeOK
<1>1. ASSUME NEW c \in Hostile, Open(c) PROVE HonestView' = HonestView
  BY <1>1 DEF Open
<1>2. ASSUME NEW c \in Hostile, Close(c) PROVE HonestView' = HonestView
  BY <1>2 DEF Close
<1>3. ASSUME NEW c \in Hostile, Auth(c) PROVE HonestView' = HonestView
  BY <1>3 DEF Auth, Count
<1>4. ASSUME NEW c \in Hostile, NEW h, Announce(c, h) PROVE HonestView' = HonestView
  BY <1>4 DEF Announce, Unknown, Limited, Count
<1>5. ASSUME NEW c \in Hostile, NEW h, Fetched(c, h, FALSE) PROVE HonestView' = HonestView
  BY <1>5 DEF Fetched, Unknown
<1>6. ASSUME NEW c \in Hostile, NEW h, FetchFailed(c, h) PROVE HonestView' = HonestView
  BY <1>6 DEF FetchFailed
<1>7. ASSUME NEW c \in Hostile, NEW id, Tx(c, id, FALSE) PROVE HonestView' = HonestView
  BY <1>7 DEF Tx, Unknown, Limited, Count
<1>8. ASSUME NEW c \in Hostile, NEW u, Junk(c, u) PROVE HonestView' = HonestView
  BY <1>8 DEF Junk, Unknown, Limited, Count
<1> QED
  BY <1>1, <1>2, <1>3, <1>4, <1>5, <1>6, <1>7, <1>8 DEF HostileStep
=============================================================================
