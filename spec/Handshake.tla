------------------------------ MODULE Handshake ------------------------------
(***************************************************************************)
(* The peer handshake of one node A (Peer::initiate_handshake,             *)
(* handle_handshake_challenge, handle_handshake_response,                  *)
(* Network::handle_handshake_response) against an active attacker.   C17   *)
(*                                                                         *)
(* Connections of A are numbered; on an "acc" connection A is the acceptor *)
(* (it issues a challenge when the connection opens), on an "ini"          *)
(* connection A dialled out and waits for the peer's challenge.            *)
(*                                                                         *)
(* Signatures are terms: a response carries (key k, challenge x the        *)
(* signature is over, valid?).  The attacker owns key "M", can make        *)
(* "M"-signatures over anything, gets "B"-signatures over anything it      *)
(* likes from the honest node B (an honest node signs every challenge it   *)
(* is sent), and holds the "A"-signatures A itself has sent out.  It can   *)
(* drop, reorder, replay and redirect everything it has seen.              *)
(***************************************************************************)
EXTENDS Naturals, Sequences, FiniteSets, TLC

CONSTANTS Conns,    \* connection ids of A
          Role      \* [Conns -> {"acc", "ini"}]

NoChal == "-"
NoKey == "-"

(* N : the node's peer table: [status, chal, key : functions over Conns ; byKey : key -> conn (0 = none)] *)

(* --- the node's handlers as functions of its state ------------------------------------ *)

(* a connection opens; fresh is the challenge the acceptor generates *)
OnConnect(N, c, fresh) ==
    [N EXCEPT !.status[c] = "connecting",
              !.chal[c] = IF Role[c] = "acc" THEN fresh ELSE N.chal[c]]

(* the node answers any challenge, at any time, and remembers its own new challenge *)
OnChallenge(N, c, fresh) == [N EXCEPT !.chal[c] = fresh]

(* precondition for accepting a response on c (C17) *)
Acceptable(N, c, k, x, valid, ver) ==
    /\ ver = "ok"
    /\ N.chal[c] # NoChal
    /\ valid /\ x = N.chal[c]                 \* a valid signature by k over the stored challenge
    /\ (N.key[c] # NoKey => N.key[c] = k)     \* a connection never changes its key

Reject(N, c) == [N EXCEPT !.status[c] = "disconnected", !.chal[c] = NoChal]

Accept(N, c, k) ==
    LET old == {d \in Conns : d # c /\ N.key[d] = k /\ N.status[d] \notin {"connected", "gone"}}
        M1 == [N EXCEPT !.status[c] = "connected", !.key[c] = k, !.chal[c] = NoChal]
    IN IF old # {}
       THEN \* reconnection: the stale peer entry with that key is dropped
            LET d == CHOOSE z \in old : TRUE IN
            [M1 EXCEPT !.status[d] = "gone", !.key[d] = NoKey, !.chal[d] = NoChal, !.byKey[k] = 0]
       ELSE [M1 EXCEPT !.byKey[k] = c]

OnResponse(N, c, k, x, valid, ver) ==
    IF Acceptable(N, c, k, x, valid, ver) THEN Accept(N, c, k) ELSE Reject(N, c)

(* --- C17 as predicates over one observed step P -> T caused by a message on connection c - *)

(* the connection became connected, or changed the key it is connected under *)
NewlyAuthenticated(P, T, c) ==
    T.status[c] = "connected" /\ (P.status[c] # "connected" \/ T.key[c] # P.key[c])

OthersUntouched(P, T, c) ==
    \A d \in Conns \ {c} :
        \/ (T.status[d] = P.status[d] /\ T.key[d] = P.key[d] /\ T.chal[d] = P.chal[d])
        \/ \* the only permitted side effect: a stale, not connected entry of the same key is merged away
           (P.status[d] # "connected" /\ P.key[d] # NoKey /\ P.key[d] = T.key[c] /\ T.status[d] = "gone")

MapUndisturbed(P, T, c) ==
    \A k \in DOMAIN P.byKey : (P.byKey[k] # 0 /\ P.byKey[k] # c /\ P.status[P.byKey[k]] = "connected"
                                 /\ T.key[c] # k) => T.byKey[k] = P.byKey[k]
=============================================================================
