------------------------------ MODULE MC_Node ------------------------------
(* bounded instance of Node: one honest and one hostile connection, all interleavings; *)
(* behaviours are printed as input sequences for the real node                         *)
EXTENDS Node, Json

CONSTANT MaxHostile, ScnLen
VARIABLES hist, nh

mvars == <<vars, hist, nh>>

Rec(op, c, h, ok, hostile) == [op |-> op, conn |-> c, h |-> h, ok |-> ok, hostile |-> hostile]

MCInit == Init /\ hist = <<>> /\ nh = 0

MCHonest ==
    /\ nh' = nh
    /\ \/ \E c \in Honest : Open(c) /\ hist' = Append(hist, Rec("open", c, 0, TRUE, FALSE))
       \/ \E c \in Honest : Auth(c) /\ hist' = Append(hist, Rec("auth", c, 0, TRUE, FALSE))
       \/ \E c \in Honest, h \in (StartH + 1)..MaxH : peers[c] = "auth" /\ h \notin have /\ h \notin queue[c] /\ Announce(c, h)
             /\ ~(\E i \in DOMAIN hist : hist[i].op = "announce" /\ hist[i].h = h /\ hist[i].conn = c)
             /\ hist' = Append(hist, Rec("announce", c, h, TRUE, FALSE))
       \/ \E c \in Honest, h \in 1..MaxH : h \in queue[c] /\ Fetched(c, h, TRUE)
             /\ hist' = Append(hist, Rec("fetched", c, h, TRUE, FALSE))
       \/ \E c \in Honest, id \in TxIds : peers[c] = "auth" /\ id \notin pool /\ Tx(c, id, TRUE)
             /\ ~(\E i \in DOMAIN hist : hist[i].op = "tx" /\ hist[i].h = id /\ hist[i].conn = c)
             /\ hist' = Append(hist, Rec("tx", c, id, TRUE, FALSE))

MCHostile ==
    /\ nh < MaxHostile /\ nh' = nh + 1
    /\ \/ \E c \in Hostile : Open(c) /\ hist' = Append(hist, Rec("open", c, 0, FALSE, TRUE))
       \/ \E c \in Hostile : peers[c] # "none" /\ Close(c) /\ hist' = Append(hist, Rec("close", c, 0, FALSE, TRUE))
       \/ \E c \in Hostile : Auth(c) /\ hist' = Append(hist, Rec("auth", c, 0, FALSE, TRUE))
       \/ \E c \in Hostile : Announce(c, MaxH + 1) /\ hist' = Append(hist, Rec("announce", c, MaxH + 1, FALSE, TRUE))
       \/ \E c \in Hostile, h \in {StartH + 1, MaxH + 1} : Fetched(c, h, FALSE)
             /\ hist' = Append(hist, Rec("fetched", c, h, FALSE, TRUE))
       \/ \E c \in Hostile : FetchFailed(c, MaxH + 1) /\ hist' = Append(hist, Rec("fetchfail", c, MaxH + 1, FALSE, TRUE))
       \/ \E c \in Hostile, id \in TxIds : Tx(c, id, FALSE) /\ hist' = Append(hist, Rec("tx", c, id, FALSE, TRUE))
       \/ \E c \in Hostile, u \in BOOLEAN : Junk(c, u) /\ hist' = Append(hist, Rec("junk", c, 0, u, TRUE))

MCInternal ==
    /\ nh' = nh
    /\ \/ RunVerify /\ hist' = Append(hist, Rec("run", 0, 1, TRUE, FALSE))
       \/ RunConsensus /\ hist' = Append(hist, Rec("run", 0, 2, TRUE, FALSE))

MCNext == MCHonest \/ MCHostile \/ MCInternal
MCSpec == MCInit /\ [][MCNext]_mvars
MCFair == MCSpec /\ WF_mvars(MCHonest) /\ WF_mvars(MCInternal)

Bound == Len(hist) <= ScnLen
Done == tip = MaxH /\ vq = <<>> /\ cq = <<>>
PrintScenario == (Len(hist) = ScnLen \/ Done) => PrintT(<<"SCN", ToJson([steps |-> hist, maxh |-> MaxH, starth |-> StartH])>>)
View == vars     \* the history does not distinguish states
MCSyncCompletes == <>Done
=============================================================================
