---------------------------- MODULE MC_Handshake ----------------------------
(* Bounded instance of Handshake: node A with a few connections, the attacker delivering   *)
(* every challenge / response it can assemble, in every order; also the scenario generator. *)
EXTENDS Handshake, Json

CONSTANTS MaxNonce, MaxLen,
          Vers, Valids     \* response alphabets explored (subsets of {"ok","unset","incompatible"} and BOOLEAN)

VARIABLES N, nn, known, sigA, accepted, h
vars == <<N, nn, known, sigA, accepted, h>>

RoleDef == [c \in Conns |-> IF c % 2 = 1 THEN "acc" ELSE "ini"]
Keys == {"A", "B", "M"}
Nonce(i) == "a" \o ToString(i)
AttackerNonce == "m1"

Init ==
    /\ N = [status |-> [c \in Conns |-> "none"], chal |-> [c \in Conns |-> NoChal],
            key |-> [c \in Conns |-> NoKey], byKey |-> [k \in Keys |-> 0]]
    /\ nn = 1 /\ known = {AttackerNonce, "zero"} /\ sigA = {} /\ accepted = <<>> /\ h = <<>>

Room == Len(h) < MaxLen

Open(c) ==
    /\ Room /\ N.status[c] \in {"none", "disconnected"} /\ nn <= MaxNonce
    /\ N' = OnConnect(N, c, Nonce(nn))
    /\ nn' = IF Role[c] = "acc" THEN nn + 1 ELSE nn
    /\ known' = IF Role[c] = "acc" THEN known \cup {Nonce(nn)} ELSE known
    /\ h' = Append(h, [op |-> "open", conn |-> c])
    /\ UNCHANGED <<sigA, accepted>>

Close(c) ==
    /\ Room /\ N.status[c] \in {"connecting", "connected"}
    /\ N' = Reject(N, c)
    /\ h' = Append(h, [op |-> "close", conn |-> c])
    /\ UNCHANGED <<nn, known, sigA, accepted>>

SendChal(c, x) ==
    /\ Room /\ N.status[c] \in {"connecting", "connected"} /\ nn <= MaxNonce   \* messages arrive on open connections only
    /\ x \in known
    /\ N' = OnChallenge(N, c, Nonce(nn))
    /\ nn' = nn + 1
    /\ known' = known \cup {Nonce(nn)}
    /\ sigA' = sigA \cup {x}                   \* A has signed x and sent the signature out
    /\ h' = Append(h, [op |-> "chal", conn |-> c, x |-> x])
    /\ UNCHANGED accepted

SendResp(c, k, x, valid, ver) ==
    /\ Room /\ N.status[c] \in {"connecting", "connected"}
    /\ x \in known
    /\ (valid /\ k = "A") => x \in sigA        \* only A makes A's signatures
    /\ N' = OnResponse(N, c, k, x, valid, ver)
    /\ accepted' = IF Acceptable(N, c, k, x, valid, ver) THEN Append(accepted, <<c, k, x>>) ELSE accepted
    /\ sigA' = IF Acceptable(N, c, k, x, valid, ver) /\ Role[c] = "acc" THEN sigA \cup {AttackerNonce} ELSE sigA
    /\ h' = Append(h, [op |-> "resp", conn |-> c, key |-> k, x |-> x, valid |-> valid, ver |-> ver])
    /\ UNCHANGED <<nn, known>>

Next ==
    \/ \E c \in Conns : Open(c) \/ Close(c)
    \/ \E c \in Conns, x \in known : SendChal(c, x)
    \/ \E c \in Conns, k \in Keys, x \in known, valid \in Valids, ver \in Vers :
          SendResp(c, k, x, valid, ver)

Spec == Init /\ [][Next]_vars

(* ---- C17 on the model ------------------------------------------------------------------ *)
Auth == \A c \in Conns : N.status[c] = "connected" =>
            \E i \in DOMAIN accepted : accepted[i][1] = c /\ accepted[i][2] = N.key[c]
AcceptedOnce == \A i, j \in DOMAIN accepted : (i # j /\ accepted[i][1] = accepted[j][1]) => accepted[i][3] # accepted[j][3]
OnlyOwnChallenge == \A i \in DOMAIN accepted : SubSeq(accepted[i][3], 1, 1) = "a"   \* never the attacker's nonce
NoDisturb == [][\A c \in Conns : (h' # h /\ h'[Len(h')].op = "resp" /\ h'[Len(h')].conn = c)
                    => (OthersUntouched(N, N', c) /\ MapUndisturbed(N, N', c))]_vars

Done == Len(h) = MaxLen
PrintScenario == Done => PrintT(<<"SCN", ToJson([roles |-> [c \in Conns |-> Role[c]], steps |-> h])>>)
=============================================================================
