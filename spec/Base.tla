------------------------------- MODULE Base -------------------------------
(* Shared operators: limb numbers (quantities larger than TLC's 32-bit integers), *)
(* sequence helpers.                                                              *)
EXTENDS Naturals, Sequences, FiniteSets

LimbBase == 2097152   \* 2^21 ; a u64 is <<hi, mid, lo>> with hi < 2^22

LimbZero == <<0, 0, 0>>

LimbNorm(x) ==
    LET lo  == x[3] % LimbBase
        c1  == x[3] \div LimbBase
        m   == x[2] + c1
        mid == m % LimbBase
        c2  == m \div LimbBase
    IN <<x[1] + c2, mid, lo>>

LimbAdd(x, y) == LimbNorm(<<x[1] + y[1], x[2] + y[2], x[3] + y[3]>>)

LimbLeq(x, y) ==
    LET a == LimbNorm(x) b == LimbNorm(y) IN
    \/ a[1] < b[1]
    \/ a[1] = b[1] /\ a[2] < b[2]
    \/ a[1] = b[1] /\ a[2] = b[2] /\ a[3] <= b[3]

LimbEq(x, y) == LimbNorm(x) = LimbNorm(y)
LimbLt(x, y) == LimbLeq(x, y) /\ ~LimbEq(x, y)

(* x - y for y <= x (0 otherwise) *)
LimbSub(x, y) ==
    LET a == LimbNorm(x) b == LimbNorm(y) IN
    IF ~LimbLeq(b, a) THEN LimbZero
    ELSE LET lo0 == a[3] - b[3]    bw1 == IF a[3] < b[3] THEN 1 ELSE 0
             lo  == IF bw1 = 1 THEN a[3] + LimbBase - b[3] ELSE lo0
             bw2 == IF a[2] < b[2] + bw1 THEN 1 ELSE 0
             mid == IF bw2 = 1 THEN a[2] + LimbBase - b[2] - bw1 ELSE a[2] - b[2] - bw1
         IN <<a[1] - b[1] - bw2, mid, lo>>

(* floor(x / 2) *)
LimbHalf(x) ==
    LET a == LimbNorm(x)
        r1 == a[1] % 2
        m  == a[2] + r1 * LimbBase
        r2 == m % 2
    IN <<a[1] \div 2, m \div 2, (a[3] + r2 * LimbBase) \div 2>>

LimbOfNat(n) == LimbNorm(<<0, 0, n>>)
LimbIsSmall(x) == LET a == LimbNorm(x) IN a[1] = 0 /\ a[2] < 256      \* below 2^29
LimbToNat(x) == LET a == LimbNorm(x) IN a[2] * LimbBase + a[3]      \* only for LimbIsSmall values

RECURSIVE LimbSumSeq(_, _)
LimbSumSeq(s, f) == \* sum of f[s[i]] over the sequence s
    IF s = <<>> THEN LimbZero ELSE LimbAdd(f[Head(s)], LimbSumSeq(Tail(s), f))

SeqToSet(s) == {s[i] : i \in DOMAIN s}

RECURSIVE RevSeq(_)
RevSeq(s) == IF s = <<>> THEN <<>> ELSE Append(RevSeq(Tail(s)), Head(s))

Last(s) == s[Len(s)]
Front(s) == SubSeq(s, 1, Len(s) - 1)

Max2(a, b) == IF a >= b THEN a ELSE b
Min2(a, b) == IF a <= b THEN a ELSE b
=============================================================================
