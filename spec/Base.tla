------------------------------- MODULE Base -------------------------------
(* Shared operators: limb numbers (quantities larger than TLC's 32-bit integers), *)
(* sequence helpers.                                                              *)
EXTENDS Naturals, Sequences, FiniteSets

LimbBase == 2097152   \* 2^21 ; a u64 is <<hi, mid, lo>> with hi < 2^22

LimbZero == <<0, 0, 0>>

LimbNorm(x) ==
    LET lo  == x[3] % LimbBase
        c1  == x[3] \div LimbBase
        m   == x[2] + c1
        mid == m % LimbBase
        c2  == m \div LimbBase
    IN <<x[1] + c2, mid, lo>>

LimbAdd(x, y) == LimbNorm(<<x[1] + y[1], x[2] + y[2], x[3] + y[3]>>)

LimbLeq(x, y) ==
    LET a == LimbNorm(x) b == LimbNorm(y) IN
    \/ a[1] < b[1]
    \/ a[1] = b[1] /\ a[2] < b[2]
    \/ a[1] = b[1] /\ a[2] = b[2] /\ a[3] <= b[3]

LimbEq(x, y) == LimbNorm(x) = LimbNorm(y)
LimbLt(x, y) == LimbLeq(x, y) /\ ~LimbEq(x, y)

RECURSIVE LimbSumSeq(_, _)
LimbSumSeq(s, f) == \* sum of f[s[i]] over the sequence s
    IF s = <<>> THEN LimbZero ELSE LimbAdd(f[Head(s)], LimbSumSeq(Tail(s), f))

SeqToSet(s) == {s[i] : i \in DOMAIN s}

RECURSIVE RevSeq(_)
RevSeq(s) == IF s = <<>> THEN <<>> ELSE Append(RevSeq(Tail(s)), Head(s))

Last(s) == s[Len(s)]
Front(s) == SubSeq(s, 1, Len(s) - 1)

Max2(a, b) == IF a >= b THEN a ELSE b
Min2(a, b) == IF a <= b THEN a ELSE b
=============================================================================
