----------------------------- MODULE ChainTrace -----------------------------
(* Trace validation for Chain (C03, C04, C05): a total monitor over the ndjson trace    *)
(* recorded by harness/src/bin/chain.rs.  Every Add event is checked against the        *)
(* big-step semantics Add(A, S, b) of Chain.tla, evaluated on the OBSERVED pre-state;   *)
(* all divergences are collected in `bad` (with the property they belong to) and the    *)
(* monitor re-synchronises to the observed post-state, so one divergence never hides    *)
(* the rest of the trace.                                                               *)
EXTENDS Chain, Json, IOUtils

Rec == ndJsonDeserialize(IOEnv.TRACE)

VARIABLES l, bad, wal

tvars == <<A, S, w, last, l, bad, wal>>

Rng(s) == {s[i] : i \in DOMAIN s}

Attrs(e) == [parent |-> e.attrs.parent, height |-> e.attrs.height, gt |-> e.attrs.gt,
             bf |-> <<e.attrs.bf[1], e.attrs.bf[2], e.attrs.bf[3]>>, ok |-> e.attrs.ok,
             ins |-> Rng(e.attrs.ins), outs |-> Rng(e.attrs.outs)]

Obs(e) == [stored |-> Rng(e.st.stored), inlc |-> Rng(e.st.inlc),
           lc |-> [h \in 1..MaxH |-> e.st.lc[h]], tip |-> e.st.tip, utxo |-> Rng(e.st.utxo)]

Accepted(res) == res \in {"AddedLc", "AddedSide"}
IsPanic(res) == Len(res) >= 6 /\ SubSeq(res, 1, 6) = "Panic:"

Bad(e, prop, why) == [pos |-> l, scn |-> e.scn, i |-> e.i, b |-> e.b, prop |-> prop, why |-> why, res |-> e.res]

(* number of loop steps allowed for this call (C04) *)
BoundM(A2, P, b, m) ==
    LET d == Decide(A2, P, b, m) IN
    IF d.k = "Reorg" THEN 2 * (Len(d.old) + Len(d.new)) + 2
    ELSE 2 * (Cardinality(P.stored) + 1) + 2
Bound(A2, P, b) == BoundM(A2, P, b, "flags")

KindStr(A2, P, b) == Decide(A2, P, b, "flags").k \o "/" \o Decide(A2, P, b, "stored").k

Checks(e, A2, P, T, prevwal) ==
    LET b == e.b
        c03 == IF IsPanic(e.res) THEN {} ELSE
               {Bad(e, "C03", x) : x \in Inconsistencies(A2, T)}
        (* the chain the node was on before the call starts at a block whose parent it never *)
        (* wound: it runs without the outputs of the older blocks (Chain.tla, Inconsistencies) *)
        pp == IF P.tip = None THEN <<>> ELSE FlaggedPath(A2, P)
        unrooted == pp # <<>> /\ A2[pp[1]].parent # None
        regime == IF unrooted THEN "-on-chain-without-known-ancestors" ELSE ""
        c04 == (IF IsPanic(e.res) THEN {Bad(e, "C04", "panic")} ELSE {})
               \cup (IF ~Accepted(e.res) /\ ~IsPanic(e.res) /\ T # P
                     THEN {Bad(e, "C04", "rejected-block-left-trace" \o regime \o ":" \o
                              (IF T.tip # P.tip THEN "tip " ELSE "") \o
                              (IF T.utxo # P.utxo THEN "utxo " ELSE "") \o
                              (IF T.lc # P.lc THEN "index " ELSE "") \o
                              (IF T.inlc # P.inlc THEN "flags " ELSE "") \o
                              (IF T.stored # P.stored THEN "stored" ELSE ""))} ELSE {})
               \cup (IF ~Accepted(e.res) /\ ~IsPanic(e.res) /\ e.wal # prevwal
                     THEN {Bad(e, "C04", "rejected-block-changed-wallet" \o regime)} ELSE {})
               \cup (IF \E i \in DOMAIN e.steps : e.steps[i][1] = "B"
                     THEN {Bad(e, "C04", "step-budget-exceeded")} ELSE {})
               \cup (IF Len(e.steps) > Bound(A2, P, b)
                     THEN {Bad(e, "C04", "step-bound")} ELSE {})
        moved == T.tip # P.tip
        c05 == IF IsPanic(e.res) THEN {} ELSE
               (IF moved /\ ~(T.tip = b /\ Criteria(A2, P, T))
                THEN {Bad(e, "C05", "tip-moved-without-criteria:" \o KindStr(A2, P, b))} ELSE {})
               \cup (IF MustAdopt(A2, P, b) /\ T.tip # b
                     THEN {Bad(e, "C05", "adoptable-block-not-adopted")} ELSE {})
               \cup (IF P.tip # None /\ T.tip # None /\ T.tip \in DOMAIN A2 /\ P.tip \in DOMAIN A2
                        /\ A2[T.tip].height < A2[P.tip].height
                     THEN {Bad(e, "C05", "tip-height-decreased")} ELSE {})
               \cup (IF P.tip # None /\ T.tip = None
                     THEN {Bad(e, "C05", "tip-lost")} ELSE {})
               \cup (IF b \notin P.stored /\ P.stored # {} /\ A2[b].parent \notin P.stored
                        /\ (T.tip # P.tip \/ T.lc # P.lc \/ T.inlc # P.inlc \/ T.utxo # P.utxo)
                     THEN {Bad(e, "C05", "orphan-disturbed-index")} ELSE {})
    IN c03 \cup c04 \cup c05

TraceInit ==
    /\ A = <<>> /\ S = EmptyState /\ w = Idle
    /\ last = [b |-> None, res |-> "none", ok |-> TRUE]
    /\ l = 1 /\ bad = {} /\ wal = <<>>

TraceNext ==
    /\ l <= Len(Rec)
    /\ LET e == Rec[l] IN
       IF e.ev = "Reset"
       THEN /\ A' = <<>> /\ S' = EmptyState /\ wal' = <<>> /\ bad' = bad
       ELSE LET A2 == IF e.b \in DOMAIN A THEN A ELSE (e.b :> Attrs(e)) @@ A
                T == Obs(e)
            IN /\ A' = A2
               /\ S' = T
               /\ wal' = e.wal
               /\ bad' = bad \cup Checks(e, A2, S, T, wal)
    /\ l' = l + 1
    /\ UNCHANGED <<w, last>>

TraceSpec == TraceInit /\ [][TraceNext]_tvars

(* acceptance: the whole trace was consumed; divergences are printed for the driver *)
TraceDone ==
    /\ PrintT(<<"TRACE-CONSUMED", TLCGet("stats").diameter - 1, Len(Rec)>>)
    /\ TRUE

ReportBad == (l = Len(Rec) + 1) => \A x \in bad : PrintT(<<"BAD", ToJson(x)>>)
=============================================================================
