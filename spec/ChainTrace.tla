----------------------------- MODULE ChainTrace -----------------------------
(* Trace validation for Chain (C03, C04, C05): a total monitor over the ndjson trace    *)
(* recorded by harness/src/bin/chain.rs.  Every Add event is checked against the        *)
(* big-step semantics Add(A, S, b) of Chain.tla, evaluated on the OBSERVED pre-state;   *)
(* all divergences are collected in `bad` (with the property they belong to) and the    *)
(* monitor re-synchronises to the observed post-state, so one divergence never hides    *)
(* the rest of the trace.                                                               *)
EXTENDS Chain, Json, IOUtils

Rec == ndJsonDeserialize(IOEnv.TRACE)

VARIABLES l, bad, wal, lost, deep, det   \* det: the node has attempted a chain without known ancestors (history)

tvars == <<A, S, w, last, l, bad, wal, det, lost, deep>>

Rng(s) == {s[i] : i \in DOMAIN s}

Attrs(e) == [parent |-> e.attrs.parent, height |-> e.attrs.height, gt |-> e.attrs.gt,
             bf |-> <<e.attrs.bf[1], e.attrs.bf[2], e.attrs.bf[3]>>, ok |-> e.attrs.ok,
             ins |-> Rng(e.attrs.ins), outs |-> Rng(e.attrs.outs)]

Obs(e) == [stored |-> Rng(e.st.stored), inlc |-> Rng(e.st.inlc),
           lc |-> [h \in 1..MaxH |-> e.st.lc[h]], tip |-> e.st.tip, utxo |-> Rng(e.st.utxo),
           top |-> e.st.top, loaded |-> e.st.loaded]

Accepted(res) == res \in {"AddedLc", "AddedSide"}    \* "Retry" (fetch the parent first), "Invalid", "Exists": not stored
IsPanic(res) == Len(res) >= 6 /\ SubSeq(res, 1, 6) = "Panic:"

Bad(e, prop, why) == [pos |-> l, scn |-> e.scn, i |-> e.i, b |-> e.b, prop |-> prop, why |-> why, res |-> e.res]

(* number of loop steps allowed for this call (C04) *)
BoundM(A2, P, b, m) ==
    LET d == Decide(A2, P, b, m) IN
    IF d.k = "Reorg" THEN 2 * (Len(d.old) + Len(d.new)) + 2
    ELSE 2 * (Cardinality(P.stored) + 1) + 2
Bound(A2, P, b) == BoundM(A2, P, b, "flags")

KindStr(A2, P, b) == Decide(A2, P, b, "flags").k \o "/" \o Decide(A2, P, b, "stored").k

Checks(e, A2, P, T, prevwal, det2, lost1, deep2) ==
    LET b == e.b
        (* regimes of the known findings.  modelled: the state after the rejected call differs from *)
        (* the state before it and is exactly what Chain.tla (FailState) says a reorganisation      *)
        (* failing at some block of the candidate leaves behind: purges of the blocks wound before  *)
        (* the failure are not undone and, det2: when the node has (now or earlier) tried a chain   *)
        (* that shares no block with its own, unwinding inserts inputs it never held.  Any other    *)
        (* difference is reported without a regime tag.                                             *)
        d == Decide(A2, P, b, "flags")
        wo == IF d.k = "Reorg" THEN RevSeq(d.new) ELSE <<>>
        fails == IF d.k = "Reorg" THEN {FailState(A2, P, d.old, wo, i) : i \in DOMAIN wo} ELSE {}
        \* the height counter is not part of what C04 lists; entries of blocks below the retention
        \* horizon (as of the highest block ever wound) are not part of the ledger any more
        NoTop(X) == [X EXCEPT !.top = 0, !.utxo = @ \ (StaleOuts(A2, T) \cup StaleOuts(A2, P))]
        modelled == NoTop(T) # NoTop(P) /\ NoTop(T) \in {NoTop(f) : f \in fails}
        regime == IF ~modelled THEN ""
                  ELSE IF det2 THEN "-on-chain-without-known-ancestors" ELSE "-purged-ahead"
        \* the extreme of purging ahead: a candidate of 2G+1 stored blocks purged the old tip itself;
        \* the rejected call (now or earlier in the scenario) left the node without a chain
        lost2 == lost1 \/ (modelled /\ ~Accepted(e.res) /\ T.tip = None /\ P.tip # None)
        \* deep2: the node has adopted a chain whose fork point lies below blocks of its own chain that were
        \* already purged - those blocks could not be unwound, their flags and ledger effects stay (known finding)
        sfx == IF lost2 THEN "-after-purging-ahead-erased-the-chain"
               ELSE IF deep2 THEN "-after-reorganisation-deeper-than-retention" ELSE ""
        c03 == IF IsPanic(e.res) THEN {} ELSE
               {Bad(e, "C03", x \o sfx) : x \in InconsistenciesT(A2, T, ~det2) \ (IF det2 THEN {"utxo"} ELSE {})}
        \* known finding: re-winding the old chain puts the wallet's outputs of those blocks back on its list without
        \* the expiry test, so outputs that had already left the retention window (the wallet had dropped them,
        \* nobody can spend them) are listed again - the only change is such additions
        expired == UNION {A2[x].outs : x \in {y \in DOMAIN A2 : T.tip # None /\ T.tip \in DOMAIN A2 /\ A2[y].height + G < A2[T.tip].height}}
        relisted == /\ DOMAIN prevwal = DOMAIN e.wal /\ "unspent" \in DOMAIN e.wal
                    /\ Rng(prevwal.unspent) \subseteq Rng(e.wal.unspent)
                    /\ Rng(e.wal.unspent) # Rng(prevwal.unspent)
                    /\ (Rng(e.wal.unspent) \ Rng(prevwal.unspent)) \subseteq expired
                    /\ Rng(prevwal.slips) \subseteq Rng(e.wal.slips)
                    /\ (Rng(e.wal.slips) \ Rng(prevwal.slips)) \subseteq expired
        c04 == (IF IsPanic(e.res)
                THEN {Bad(e, "C04", IF PanicPossible(A2, P, b) THEN "panic-rewinding-a-purged-block"
                                    ELSE IF det2 THEN "panic-on-chain-without-known-ancestors" ELSE "panic")} ELSE {})
               \cup (IF ~Accepted(e.res) /\ ~IsPanic(e.res) /\ NoTop(T) # NoTop(P)
                     THEN {Bad(e, "C04", "rejected-block-left-trace" \o regime \o ":" \o
                              (IF T.tip # P.tip THEN "tip " ELSE "") \o
                              (IF T.utxo # P.utxo THEN "utxo " ELSE "") \o
                              (IF T.lc # P.lc THEN "index " ELSE "") \o
                              (IF T.inlc # P.inlc THEN "flags " ELSE "") \o
                              (IF T.stored # P.stored THEN "stored" ELSE ""))} ELSE {})
               \cup (IF ~Accepted(e.res) /\ ~IsPanic(e.res) /\ e.wal # prevwal
                     THEN {Bad(e, "C04", "rejected-block-changed-wallet" \o
                                 (IF relisted THEN "-relisting-expired-outputs"
                                  ELSE IF modelled THEN regime
                                  \* the inserted inputs may all be entries below the retention horizon,
                                  \* which the state comparison leaves out but the wallet lists
                                  ELSE IF det2 /\ T.utxo # P.utxo THEN "-on-chain-without-known-ancestors"
                                  ELSE ""))} ELSE {})
               \cup (IF \E i \in DOMAIN e.steps : e.steps[i][1] = "B"
                     THEN {Bad(e, "C04", "step-budget-exceeded")} ELSE {})
               \cup (IF Len(e.steps) > Bound(A2, P, b)
                     THEN {Bad(e, "C04", "step-bound")} ELSE {})
        moved == T.tip # P.tip
        c05 == IF IsPanic(e.res) THEN {} ELSE
               (IF moved /\ ~(T.tip = b /\ Criteria(A2, P, T))
                THEN {Bad(e, "C05", "tip-moved-without-criteria:" \o KindStr(A2, P, b) \o sfx)} ELSE {})
               \cup (IF MustAdopt(A2, P, b) /\ T.tip # b
                     THEN {Bad(e, "C05", "adoptable-block-not-adopted" \o sfx)} ELSE {})
               \cup (IF P.tip # None /\ T.tip # None /\ T.tip \in DOMAIN A2 /\ P.tip \in DOMAIN A2
                        /\ A2[T.tip].height < A2[P.tip].height
                     THEN {Bad(e, "C05", "tip-height-decreased" \o sfx)} ELSE {})
               \cup (IF P.tip # None /\ T.tip = None
                     THEN {Bad(e, "C05", "tip-lost" \o sfx)} ELSE {})
               \cup (IF b \notin P.stored /\ P.stored # {} /\ A2[b].parent \notin P.stored
                        /\ (T.tip # P.tip \/ T.lc # P.lc \/ T.inlc # P.inlc \/ T.utxo # P.utxo)
                     THEN {Bad(e, "C05", "orphan-disturbed-index" \o sfx)} ELSE {})
    IN c03 \cup c04 \cup c05

LostNow(e, A2, P, T, det2) ==
    LET d == Decide(A2, P, e.b, "flags")
        wo == IF d.k = "Reorg" THEN RevSeq(d.new) ELSE <<>>
        fails == IF d.k = "Reorg" THEN {FailState(A2, P, d.old, wo, i) : i \in DOMAIN wo} ELSE {}
        N(X) == [X EXCEPT !.top = 0, !.utxo = @ \ (StaleOuts(A2, T) \cup StaleOuts(A2, P))]
    IN ~Accepted(e.res) /\ ~IsPanic(e.res) /\ T.tip = None /\ P.tip # None /\ N(T) \in {N(f) : f \in fails}

(* the call reorganises onto a chain that shares an ancestor with the current one, but the walk from the tip *)
(* down to that ancestor ends early at a block whose parent has been purged                                  *)
DeepNow(e, A2, P) ==
    LET d == Decide(A2, P, e.b, "flags")
        nc == NewChain(A2, e.b, P.stored \cup {e.b}, P.inlc)
    IN /\ d.k = "Reorg" /\ nc.found /\ d.old # <<>>
       /\ A2[d.old[Len(d.old)]].parent # nc.anc

TraceInit ==
    /\ A = <<>> /\ S = EmptyState /\ w = Idle
    /\ last = [b |-> None, res |-> "none", ok |-> TRUE, same |-> TRUE, det |-> FALSE]
    /\ l = 1 /\ bad = {} /\ wal = <<>> /\ det = FALSE /\ lost = FALSE /\ deep = FALSE

TraceNext ==
    /\ l <= Len(Rec)
    /\ LET e == Rec[l] IN
       IF e.ev = "Reset"
       THEN /\ A' = <<>> /\ S' = [EmptyState EXCEPT !.loaded = e.loaded] /\ wal' = <<>> /\ bad' = bad /\ det' = FALSE /\ lost' = FALSE /\ deep' = FALSE
       ELSE LET A2 == IF e.b \in DOMAIN A THEN A ELSE (e.b :> Attrs(e)) @@ A
                T == Obs(e)
                det2 == det \/ DetachedReorg(A2, S, e.b)
            IN /\ A' = A2
               /\ S' = T
               /\ wal' = e.wal
               /\ det' = det2
               /\ lost' = (lost \/ LostNow(e, A2, S, T, det2))
               /\ deep' = (deep \/ DeepNow(e, A2, S))
               /\ bad' = bad \cup Checks(e, A2, S, T, wal, det2, lost, deep \/ DeepNow(e, A2, S))
    /\ l' = l + 1
    /\ UNCHANGED <<w, last>>

TraceSpec == TraceInit /\ [][TraceNext]_tvars

(* acceptance: the whole trace was consumed; divergences are printed for the driver *)
TraceDone ==
    /\ PrintT(<<"TRACE-CONSUMED", TLCGet("stats").diameter - 1, Len(Rec)>>)
    /\ TRUE

ReportBad == (l = Len(Rec) + 1) => \A x \in bad : PrintT(<<"BAD", ToJson(x)>>)
=============================================================================
