-------------------------- MODULE FetchSchedTrace --------------------------
(* Trace validation for FetchSched (C16): every recorded scheduler call is compared with  *)
(* the specification's function of the observed pre-state, and the C16 invariants are     *)
(* evaluated on every observed state.                                                    *)
EXTENDS FetchSched, Json, IOUtils

Rec == ndJsonDeserialize(IOEnv.TRACE)
PeerIds == 1..3

VARIABLES l, bad, rp, q, have
tvars == <<l, bad, rp, q, have>>

Rng(s) == {s[i] : i \in DOMAIN s}
Bad(e, why) == [pos |-> l, scn |-> e.scn, i |-> e.i, prop |-> "C16", why |-> why, res |-> e.res]

QOf(e) == [p \in PeerIds |->
             IF \E x \in Rng(e.q) : x.peer = p
             THEN LET x == CHOOSE y \in Rng(e.q) : y.peer = p
                  IN [k \in DOMAIN x.q |-> [hash |-> x.q[k].hash, id |-> x.q[k].id, st |-> x.q[k].st, rc |-> x.q[k].rc]]
             ELSE <<>>]
RpOf(e) == [p \in PeerIds |->
             IF \E x \in Rng(e.rp) : x.peer = p
             THEN LET x == CHOOSE y \in Rng(e.rp) : y.peer = p
                  IN [k \in DOMAIN x.rp |-> <<x.rp[k][1], x.rp[k][2]>>]
             ELSE <<>>]
SelOf(e) == [p \in PeerIds |->
             IF \E x \in Rng(e.sel) : x.peer = p
             THEN LET x == CHOOSE y \in Rng(e.sel) : y.peer = p
                  IN [k \in DOMAIN x.sel |-> <<x.sel[k][1], x.sel[k][2]>>]
             ELSE <<>>]

IsPanic(res) == Len(res) >= 6 /\ SubSeq(res, 1, 6) = "Panic:"

Expected(e) ==   \* [q, rp, sel] the specification computes from the observed pre-state
    CASE e.ev = "announce" ->
             [q |-> q, rp |-> [rp EXCEPT ![e.peer] = Append(@, <<e.id, e.hash>>)], sel |-> [p \in PeerIds |-> <<>>]]
      [] e.ev = "build" ->
             [q |-> [p \in PeerIds |-> BuildPeer(q[p], rp[p], have)], rp |-> [p \in PeerIds |-> <<>>],
              sel |-> [p \in PeerIds |-> <<>>]]
      [] e.ev = "select" ->
             [q |-> [p \in PeerIds |-> SelectPeer(q[p]).q], rp |-> rp,
              sel |-> [p \in PeerIds |-> SelectPeer(q[p]).sel]]
      [] e.ev = "fetched" ->
             [q |-> [p \in PeerIds |-> DropFirst(q[p], e.hash)], rp |-> rp, sel |-> [p \in PeerIds |-> <<>>]]
      [] e.ev = "failed" ->
             [q |-> [q EXCEPT ![e.peer] = FailPeer(@, e.hash, e.id)], rp |-> rp, sel |-> [p \in PeerIds |-> <<>>]]
      [] e.ev \in {"onchain", "remove"} ->
             [q |-> [p \in PeerIds |-> RemovePeer(q[p], e.hash)], rp |-> rp, sel |-> [p \in PeerIds |-> <<>>]]
      [] OTHER -> [q |-> q, rp |-> rp, sel |-> [p \in PeerIds |-> <<>>]]

Checks(e) ==
    LET oq == QOf(e)
        orp == RpOf(e)
        osel == SelOf(e)
        x == Expected(e)
    IN (IF IsPanic(e.res) THEN {Bad(e, "panic")} ELSE {})
       \cup (IF ~IsPanic(e.res) /\ oq # x.q THEN {Bad(e, "queue-differs-from-specification:" \o e.ev)} ELSE {})
       \cup (IF ~IsPanic(e.res) /\ orp # x.rp THEN {Bad(e, "pending-announcements-differ:" \o e.ev)} ELSE {})
       \cup (IF ~IsPanic(e.res) /\ e.ev = "select" /\ osel # x.sel THEN {Bad(e, "selection-differs-from-specification")} ELSE {})
       \cup (IF \E p \in PeerIds : ~InFlightBounded(oq[p]) THEN {Bad(e, "more-fetches-in-flight-than-batch-size")} ELSE {})
       \cup (IF \E p \in PeerIds : ~NoDuplicateInFlight(oq[p]) THEN {Bad(e, "block-in-flight-twice-for-one-peer")} ELSE {})
       \cup (IF \E p \in PeerIds : ~RetriesBounded(oq[p]) THEN {Bad(e, "retry-bound-exceeded")} ELSE {})
       \cup (IF e.ev = "select" /\ \E p \in PeerIds : ~RoundOrdered(Sorted(q[p]), osel[p])
             THEN {Bad(e, "round-not-in-height-order")} ELSE {})

TraceInit ==
    /\ l = 1 /\ bad = {}
    /\ rp = [p \in PeerIds |-> <<>>] /\ q = [p \in PeerIds |-> <<>>] /\ have = {}

TraceNext ==
    /\ l <= Len(Rec)
    /\ LET e == Rec[l] IN
       IF e.ev = "Reset"
       THEN /\ rp' = [p \in PeerIds |-> <<>>] /\ q' = [p \in PeerIds |-> <<>>] /\ have' = {} /\ bad' = bad
       ELSE /\ bad' = bad \cup Checks(e)
            /\ q' = QOf(e) /\ rp' = RpOf(e) /\ have' = Rng(e.have)
    /\ l' = l + 1

TraceSpec == TraceInit /\ [][TraceNext]_tvars
TraceDone == PrintT(<<"TRACE-CONSUMED", TLCGet("stats").diameter - 1, Len(Rec)>>)
ReportBad == (l = Len(Rec) + 1) => \A x \in bad : PrintT(<<"BAD", ToJson(x)>>)
=============================================================================
