-------------------------------- MODULE Wire --------------------------------
(***************************************************************************)
(* Reference byte layouts of every wire / disk record, independent of the  *)
(* Rust encoders.                                             C09  C10     *)
(*                                                                         *)
(* Bytes are lower-case hex strings (two characters per byte); fixed-width *)
(* fields are given as hex strings of their width, counts are computed.    *)
(* Enc(fmt, v) is the encoding the specification prescribes for the value  *)
(* v (a record of fields, nested sequences for repeated groups).           *)
(***************************************************************************)
EXTENDS Naturals, Sequences, TLC

HexDigits == "0123456789abcdef"
HexDigit(d) == SubSeq(HexDigits, d + 1, d + 1)
RECURSIVE HexN(_, _)
HexN(n, w) == IF w = 0 THEN "" ELSE HexN(n \div 16, w - 1) \o HexDigit(n % 16)   \* n as w hex digits, big endian
U32(n) == HexN(n, 8)
U8(n) == HexN(n, 2)
ByteLen(h) == Len(h) \div 2

RECURSIVE Join(_)
Join(s) == IF s = <<>> THEN "" ELSE Head(s) \o Join(Tail(s))

(* slip: key 33 | amount 8 | block id 8 | tx ordinal 8 | slip index 1 | type 1  = 59 bytes *)
EncSlip(s) == s.pk \o s.amount \o s.block_id \o s.tx_ordinal \o s.slip_index \o s.slip_type
RECURSIVE EncSlips(_)
EncSlips(s) == IF s = <<>> THEN "" ELSE EncSlip(Head(s)) \o EncSlips(Tail(s))
(* hop: from 33 | to 33 | signature 64 = 130 bytes *)
EncHop(h) == h.from \o h.to \o h.sig
RECURSIVE EncHops(_)
EncHops(s) == IF s = <<>> THEN "" ELSE EncHop(Head(s)) \o EncHops(Tail(s))
(* transaction: #in 4 | #out 4 | #data 4 | #hops 4 | signature 64 | timestamp 8 | replaces 4 | type 1 *)
(*              | inputs | outputs | data | hops                                                     *)
EncTx(t) ==
    U32(Len(t.from)) \o U32(Len(t.to)) \o U32(ByteLen(t.data)) \o U32(Len(t.path))
      \o t.sig \o t.ts \o t.repl \o t.type
      \o EncSlips(t.from) \o EncSlips(t.to) \o t.data \o EncHops(t.path)
RECURSIVE EncTxs(_)
EncTxs(s) == IF s = <<>> THEN "" ELSE EncTx(Head(s)) \o EncTxs(Tail(s))
TxSize(t) == 93 + 59 * (Len(t.from) + Len(t.to)) + ByteLen(t.data) + 130 * Len(t.path)

(* block: #tx 4 | id 8 | timestamp 8 | previous hash 32 | creator 33 | merkle root 32 | signature 64 *)
(*        | 26 u64 header values in the order of b.hdr | transactions                                *)
EncBlock(b) ==
    U32(IF b.btype = "header" THEN 0 ELSE Len(b.txs)) \o b.id \o b.ts \o b.prev \o b.creator \o b.merkle \o b.sig
      \o Join(b.hdr) \o (IF b.btype = "header" THEN "" ELSE EncTxs(b.txs))

(* ghost chain sync: start 32 | n 4 | n prehashes | n previous hashes | n ids | n timestamps | n tx flags | n ticket flags *)
EncGhost(g) ==
    g.start \o U32(Len(g.prehashes)) \o Join(g.prehashes) \o Join(g.prev) \o Join(g.ids) \o Join(g.ts)
      \o Join(g.txs) \o Join(g.gts)

(* handshake response: core version 4 | wallet version 4 | key 33 | signature 64 | challenge 32 | lite 1 | #url 4 | url | services *)
EncHsResp(r) ==
    r.core \o r.wallet \o r.pk \o r.sig \o r.challenge \o r.lite \o U32(ByteLen(r.url)) \o r.url \o r.services

EncInner(fmt, v) ==
    CASE fmt = "slip" -> EncSlip(v)
      [] fmt = "hop" -> EncHop(v)
      [] fmt = "tx" -> EncTx(v)
      [] fmt = "block" -> EncBlock(v)
      [] fmt = "challenge" -> v.challenge
      [] fmt = "response" -> EncHsResp(v)
      [] fmt = "chainreq" -> v.id \o v.hash \o v.fork
      [] fmt = "headerhash" -> v.hash \o v.id
      [] fmt = "empty" -> ""
      [] fmt = "raw" -> v.raw
      [] fmt = "ghost" -> EncGhost(v)
      [] fmt = "api" -> v.index \o v.data
      [] fmt = "keylist" -> Join(v.keys)
      [] fmt = "version" -> v.major \o v.minor \o v.patch
      [] fmt = "ticket" -> v.target \o v.random \o v.pk

(* a peer message is a one-byte tag followed by the payload *)
Enc(fmt, v) == IF fmt = "msg" THEN U8(v.tag) \o EncInner(v.inner, v.body) ELSE EncInner(fmt, v)

PredictedSize(fmt, v) == IF fmt = "tx" THEN TxSize(v) ELSE ByteLen(Enc(fmt, v))
=============================================================================
