--------------------------- MODULE MC_ChainFork ---------------------------
(* Two competing branches after a common prefix: branch A (valid) and branch B with at   *)
(* most one invalid block at any position; A is delivered in order, B in order or with   *)
(* its lowest block last among the first LB-1 (so that upper blocks are stored before    *)
(* they connect), in every interleaving.  Reaches reorganisations that wind several      *)
(* blocks at once with empty and non-empty competing segments, failing first / middle /  *)
(* last (C03, C04).  Every block carries a golden ticket so that ticket density never   *)
(* pre-empts the wind failure.                                                           *)
EXTENDS Chain, Json

CONSTANTS P, LA, LB, MaxLen

VARIABLE h
mcvars == <<A, S, w, last, h>>

NB == P + LA + LB
Blocks == 1..NB
InA(b) == b > P /\ b <= P + LA
InB(b) == b > P + LA
Par(b) == IF b = 1 THEN 0 ELSE IF b <= P THEN b - 1
          ELSE IF b = P + 1 THEN P
          ELSE IF b = P + LA + 1 THEN P ELSE b - 1
Hgt(b) == IF b <= P THEN b ELSE IF InA(b) THEN b ELSE P + (b - P - LA)

MkA(bad, wf) ==
    [b \in Blocks |->
        [parent |-> Par(b), height |-> Hgt(b), gt |-> (b > 1), bf |-> <<0, 0, wf[b]>>, ok |-> (b # bad),
         ins |-> IF b = 1 THEN {} ELSE {<<"g", b>>},
         outs |-> IF b = 1 THEN {<<"g", c>> : c \in 2..NB} ELSE {<<"o", b>>}]]

MCInit ==
    /\ \E bad \in {0} \cup {b \in Blocks : InB(b)}, heavyB \in BOOLEAN :
          A = MkA(bad, [b \in Blocks |-> IF InB(b) /\ heavyB THEN 3 ELSE 2])
    /\ S = EmptyState /\ w = Idle
    /\ last = [b |-> None, res |-> "none", ok |-> TRUE, same |-> TRUE, det |-> FALSE]
    /\ h = <<>>

Delivered == {h[i] : i \in DOMAIN h}
FirstB == P + LA + 1

(* A and the prefix strictly in order; B: every block above the lowest may arrive before it *)
Deliver(b) ==
    /\ Len(h) < MaxLen
    /\ b \notin Delivered
    /\ (b <= P + LA /\ b > 1) => Par(b) \in Delivered
    /\ (InB(b) /\ b > FirstB + 1) => (b - 1) \in Delivered
    /\ (InB(b)) => P \in Delivered
    /\ Offer(b)
    /\ h' = Append(h, b)

MCUnwind == UnwindStep /\ UNCHANGED h
MCWind   == WindStep /\ UNCHANGED h
MCUnNew  == UnNewStep /\ UNCHANGED h
MCRewind == RewindStep /\ UNCHANGED h
MCCrash  == CrashStep /\ UNCHANGED h
MCNext == (\E b \in Blocks : Deliver(b)) \/ MCUnwind \/ MCWind \/ MCUnNew \/ MCRewind \/ MCCrash
MCSpec == MCInit /\ [][MCNext]_mcvars /\ WF_mcvars(MCUnwind \/ MCWind \/ MCUnNew \/ MCRewind \/ MCCrash)

Done == w.pc = "idle" /\ (Len(h) = MaxLen \/ Delivered = Blocks)
Scenario == [blocks |-> [b \in Blocks |-> [id |-> b, parent |-> A[b].parent, gt |-> A[b].gt,
                                            w |-> A[b].bf[3], ok |-> A[b].ok]],
             order |-> h]
PrintScenario == Done => PrintT(<<"SCN", ToJson(Scenario)>>)
=============================================================================
