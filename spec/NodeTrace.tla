----------------------------- MODULE NodeTrace -----------------------------
(* Trace validation for Node.tla (C11).  The harness runs two nodes in lockstep: A gets every      *)
(* input of the scenario, B only those not marked hostile.  Each event carries the outcome of the  *)
(* handler calls on both and the honest-visible projection of both nodes (Node!HonestView: tip,    *)
(* chain, spendable set, pool, the records and fetch queues of the honest connections, and what    *)
(* was sent to honest peers during the step).  The monitor demands                                  *)
(*   - every handler call returned (no panic; a stall is reported by the driver),                  *)
(*   - the projections of A and B are equal after every step (NonInterference),                    *)
(*   - the tip never moves down (TipMonotone) and honest synchronisation completes: at the end of  *)
(*     a scenario that delivered every honest block, both nodes are on the honest tip.             *)
EXTENDS Naturals, Sequences, FiniteSets, TLC, Json, IOUtils

Rec == ndJsonDeserialize(IOEnv.TRACE)
VARIABLES l, bad, tipA, diverged
tvars == <<l, bad, tipA, diverged>>

Bad(e, why) == [pos |-> l, scn |-> e.scn, i |-> e.i, prop |-> "C11", why |-> why, res |-> e.res,
                op |-> e.op, kind |-> e.kind]
IsPanic(res) == Len(res) >= 6 /\ SubSeq(res, 1, 6) = "Panic:"

Keys == {"tip", "tiph", "lc", "utxo", "nutxo", "pool", "peers", "queues", "pending"}
Differing(e) == {k \in Keys : e.va[k] # e.vb[k]}

RECURSIVE Names(_)
Names(S) == IF S = {} THEN "" ELSE LET k == CHOOSE x \in S : TRUE IN k \o " " \o Names(S \ {k})

(* also left out: relayed transactions (type 4) - when no block is produced the node relays everything that was  *)
(* staged since the last attempt, valid or not ("TODO : return if tx is not valid" in propagate_transaction), so  *)
(* honest peers are sent a hostile peer's rejected transactions; what they rely on in this node is unchanged      *)
NoChainReq(ms) == SelectSeq(ms, LAMBDA m : ~(m[2] = "send" /\ m[3] \in {4, 5}))

OwnBlock(e) == e.op = "tick" /\ (e.va.tiph > tipA \/ e.vb.tiph > tipA)

StepChecks(e) ==
    IF IsPanic(e.res) THEN {Bad(e, "handler-panicked")}
    ELSE IF IsPanic(e.resb) THEN {Bad(e, "handler-panicked-on-honest-input")}
    ELSE IF e.crash_only THEN {}        \* a lite client does not validate: only crash freedom is demanded of it
    ELSE
      \* A timer step on which either twin produced a block of its own ends the comparison without a verdict:
      \* the node that also saw the hostile input holds, in its pool, valid transactions it learned from
      \* rejected blocks (9.3), so the two producers legitimately make different blocks
      (IF ~diverged /\ Differing(e) # {} /\ ~OwnBlock(e)
       THEN {Bad(e, (IF e.hostile THEN "hostile-input-changed-honest-view: " ELSE "honest-view-diverged-later: ") \o Names(Differing(e)))}
       ELSE {})
      \* Requests for the chain (message type 5) are left out: every run of the block queue re-issues one
      \* for each waiting block that lies a retention window or more above the tip, to the peer that
      \* delivered it, so a hostile delivery (which runs the queue) makes the node repeat a request it
      \* has already sent to an honest peer - a repetition, not a change of what honest peers rely on
      \cup (IF ~diverged /\ Differing(e) = {} /\ NoChainReq(e.sa) # NoChainReq(e.sb)
            THEN {Bad(e, "messages-to-honest-peers-differ")} ELSE {})
      \cup (IF e.va.tiph < tipA THEN {Bad(e, "tip-moved-down")} ELSE {})
      \cup (IF e.last /\ e.complete /\ (e.va.tiph # e.chain \/ e.vb.tiph # e.chain)
            THEN {Bad(e, "honest-synchronisation-did-not-complete")} ELSE {})

TraceInit == l = 1 /\ bad = {} /\ tipA = 0 /\ diverged = FALSE
TraceNext ==
    /\ l <= Len(Rec)
    /\ LET e == Rec[l] IN
       CASE e.ev = "Reset" -> /\ tipA' = e.va.tiph /\ diverged' = FALSE
                              /\ bad' = bad \cup (IF e.va # e.vb THEN {[pos |-> l, scn |-> e.scn, i |-> 0, prop |-> "C11",
                                                     why |-> "twin-nodes-start-differently", res |-> "", op |-> "", kind |-> ""]} ELSE {})
         [] e.ev = "Step" -> /\ bad' = bad \cup StepChecks(e)
                             /\ tipA' = IF IsPanic(e.res) \/ IsPanic(e.resb) THEN tipA ELSE e.va.tiph
                             /\ diverged' = (diverged \/ IsPanic(e.res) \/ IsPanic(e.resb)
                                             \/ (~IsPanic(e.res) /\ ~IsPanic(e.resb) /\ (Differing(e) # {} \/ e.sa # e.sb)))
         [] OTHER -> UNCHANGED <<bad, tipA, diverged>>
    /\ l' = l + 1
TraceSpec == TraceInit /\ [][TraceNext]_tvars
TraceDone == PrintT(<<"TRACE-CONSUMED", TLCGet("stats").diameter - 1, Len(Rec)>>)
ReportBad == (l = Len(Rec) + 1) => \A x \in bad : PrintT(<<"BAD", ToJson(x)>>)
=============================================================================
