---- MODULE MC_Storage ----
(* bounded instance: main chain 1..N, side blocks 101 (child of 2) and 102 (child of 1) *)
EXTENDS Storage
SP == (101 :> 2) @@ (102 :> 1)
====
