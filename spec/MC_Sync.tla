------------------------------ MODULE MC_Sync ------------------------------
EXTENDS Sync
CONSTANT N
EstimateSafeN == EstimateSafe(N)
EstSpec == SInit /\ [][FALSE]_svars      \* one state: the function check is evaluated once
=============================================================================
