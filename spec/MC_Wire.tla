------------------------------- MODULE MC_Wire -------------------------------
(* Self-check of the reference layouts over every small shape: the size formula agrees with *)
(* the encoding, count fields sit where the layout says and hold the counts, a message is    *)
(* one tag byte longer than its payload.                                                     *)
EXTENDS Wire, FiniteSets

VARIABLES nin, nout, ndata, nhops, ntx, btype
vars == <<nin, nout, ndata, nhops, ntx, btype>>

RECURSIVE Rep(_, _)
Rep(h, n) == IF n = 0 THEN "" ELSE h \o Rep(h, n - 1)
F(w) == Rep("ab", w)          \* a field of w bytes

SlipV == [pk |-> F(33), amount |-> F(8), block_id |-> F(8), tx_ordinal |-> F(8), slip_index |-> F(1), slip_type |-> F(1)]
HopV == [from |-> F(33), to |-> F(33), sig |-> F(64)]
TxV(a, b, d, p) == [sig |-> F(64), ts |-> F(8), repl |-> F(4), type |-> F(1),
                    from |-> [i \in 1..a |-> SlipV], to |-> [i \in 1..b |-> SlipV], data |-> F(d), path |-> [i \in 1..p |-> HopV]]
BlockV(k, t, bt) == [btype |-> bt, id |-> F(8), ts |-> F(8), prev |-> F(32), creator |-> F(33), merkle |-> F(32), sig |-> F(64),
                     hdr |-> [i \in 1..26 |-> F(8)], txs |-> [i \in 1..k |-> t]]

Init == nin \in 0..2 /\ nout \in 0..2 /\ ndata \in 0..2 /\ nhops \in 0..2 /\ ntx \in 0..2 /\ btype \in {"full", "header"}
Next == UNCHANGED vars
Spec == Init /\ [][Next]_vars

T == TxV(nin, nout, ndata, nhops)
B == BlockV(ntx, T, btype)

SlipIs59 == ByteLen(EncSlip(SlipV)) = 59
HopIs130 == ByteLen(EncHop(HopV)) = 130
TxSizeFormula == ByteLen(EncTx(T)) = TxSize(T) /\ TxSize(T) = 93 + 59 * (nin + nout) + ndata + 130 * nhops
TxCounts == /\ SubSeq(EncTx(T), 1, 8) = U32(nin) /\ SubSeq(EncTx(T), 9, 16) = U32(nout)
            /\ SubSeq(EncTx(T), 17, 24) = U32(ndata) /\ SubSeq(EncTx(T), 25, 32) = U32(nhops)
BlockSize == ByteLen(EncBlock(B)) = 389 + (IF btype = "header" THEN 0 ELSE ntx * TxSize(T))
BlockCount == SubSeq(EncBlock(B), 1, 8) = U32(IF btype = "header" THEN 0 ELSE ntx)
MsgOneLonger == ByteLen(Enc("msg", [tag |-> 4, inner |-> "tx", body |-> T])) = 1 + TxSize(T)
=============================================================================
