--------------------------- MODULE LiteBlockTrace ---------------------------
(* Trace validation for LiteBlock (C18): every lite block the real code produced, as a light *)
(* client receives it, is checked against ValidLite (coverage, order, alignment of the      *)
(* placeholders), the kept transactions, and the identity/commitment flags.                 *)
EXTENDS LiteBlock, Json, IOUtils

Rec == ndJsonDeserialize(IOEnv.TRACE)
VARIABLES l, bad
tvars == <<l, bad>>
Rng(s) == {s[i] : i \in DOMAIN s}
Bad(e, why) == [pos |-> l, scn |-> e.scn, i |-> e.i, prop |-> "C18", why |-> why, res |-> e.res]
IsPanic(res) == Len(res) >= 6 /\ SubSeq(res, 1, 6) = "Panic:"

(* structure only: hashes are judged by the harness against the real leaf hashes (hok) *)
Structure(items, n) ==
    /\ (n = 0 => items = <<>>)
    /\ (items # <<>> => items[1].first = 1)
    /\ \A i \in DOMAIN items : i < Len(items) => items[i + 1].first = items[i].first + items[i].len
    /\ (items # <<>> => items[Len(items)].first + items[Len(items)].len - 1 = n)
    /\ (n > 0 => items # <<>>)
    /\ \A i \in DOMAIN items : items[i].k = "sub" => AlignedSub(items[i].first, items[i].len, n)
    /\ \A i \in DOMAIN items : items[i].k = "tx" => items[i].len = 1

Checks(e) ==
    IF IsPanic(e.res) THEN {Bad(e, "panic")} ELSE
    LET items == e.items
        n == e.ntx
        f == e.flags
        keepset == {i \in 1..n : e.keep[i]}
    IN (IF ~Structure(items, n) THEN {Bad(e, "placeholders-do-not-tile-the-block-with-aligned-subtrees")} ELSE {})
       \cup (IF \E i \in DOMAIN items : ~items[i].hok THEN {Bad(e, "placeholder-or-leaf-hash-wrong-after-wire-trip")} ELSE {})
       \cup (IF \E i \in keepset : ~\E j \in DOMAIN items : items[j].k = "tx" /\ items[j].first = i
             THEN {Bad(e, "transaction-touching-the-key-list-omitted")} ELSE {})
       \cup (IF ~f.kept_wire THEN {Bad(e, "kept-transaction-differs-from-original")} ELSE {})
       \cup (IF ~f.same_id \/ ~f.same_sig \/ ~f.same_header THEN {Bad(e, "header-id-or-signature-differs")} ELSE {})
       \cup (IF ~f.same_hash_local \/ ~f.same_hash_wire THEN {Bad(e, "hash-not-preserved")} ELSE {})
       \cup (IF ~f.sig_valid_wire THEN {Bad(e, "creator-signature-invalid-after-wire-trip")} ELSE {})
       \cup (IF ~f.root_wire THEN {Bad(e, "commitment-not-recomputable-from-lite-block")} ELSE {})

TraceInit == l = 1 /\ bad = {}
TraceNext == /\ l <= Len(Rec)
             /\ bad' = IF Rec[l].ev = "Lite" THEN bad \cup Checks(Rec[l]) ELSE bad
             /\ l' = l + 1
TraceSpec == TraceInit /\ [][TraceNext]_tvars
TraceDone == PrintT(<<"TRACE-CONSUMED", TLCGet("stats").diameter - 1, Len(Rec)>>)
ReportBad == (l = Len(Rec) + 1) => \A x \in bad : PrintT(<<"BAD", ToJson(x)>>)
=============================================================================
