---------------------------- MODULE MC_LiteBlock ----------------------------
(* Exhaustive check of LiteBlock for every transaction count 0..MaxN and every keep pattern. *)
(* Also emits every (n, keep) case as a scenario for the harness (GEN).                     *)
EXTENDS LiteBlock, Json

CONSTANT MaxN
VARIABLES n, keep
vars == <<n, keep>>

Init == n \in 0..MaxN /\ keep \in SUBSET (1..n)
Next == UNCHANGED vars
Spec == Init /\ [][Next]_vars

FaithfulProjection == Faithful(n, keep)

(* converse: a misaligned placeholder or a changed leaf changes the root (hashes injective) *)
MisalignedDetected ==
    \A f \in 1..n : \A L \in {2, 4} :
        (f + L - 1 <= n /\ ~AlignedSub(f, L, n)) =>
            LET items == [i \in 1..(n - L + 1) |->
                            IF i < f THEN [k |-> "tx", first |-> i, len |-> 1, h |-> Leaf(i)]
                            ELSE IF i = f THEN [k |-> "sub", first |-> f, len |-> L, h |-> "bogus"]
                            ELSE [k |-> "tx", first |-> i + L - 1, len |-> 1, h |-> Leaf(i + L - 1)]]
            IN ~ValidLite(items, n)

PrintCase == PrintT(<<"SCN", ToJson([n |-> n, keep |-> [i \in 1..n |-> i \in keep]])>>)

(* ---- the projection and root recomputation as implemented in the pinned tree (53f9a8c), *)
(* kept for the record: TLC refutes PinnedFaithful (see DESIGN.md)                         *)
RECURSIVE PinnedMerge(_, _)
PinnedMerge(s, i) ==
    IF i + 1 > Len(s) THEN s
    ELSE IF s[i].k = "sub" /\ s[i + 1].k = "sub" /\ s[i].len = s[i + 1].len
         THEN PinnedMerge(SubSeq(s, 1, i - 1)
                            \o <<[k |-> "sub", first |-> s[i].first, len |-> 2 * s[i].len, h |-> H(s[i].h, s[i + 1].h)]>>
                            \o SubSeq(s, i + 2, Len(s)), i)
         ELSE PinnedMerge(s, i + 2)
PinnedProject(m, kp) ==
    PinnedMerge([i \in 1..m |-> [k |-> IF i \in kp THEN "tx" ELSE "sub", first |-> i, len |-> 1, h |-> Leaf(i)]], 1)
RECURSIVE Expand(_)
Expand(s) == IF s = <<>> THEN <<>>
             ELSE [j \in 1..Head(s).len |-> Head(s).h] \o Expand(Tail(s))
PinnedRoot(items) == IF items = <<>> THEN "empty" ELSE RootOfLevel(Expand(items))
PinnedFaithful == PinnedRoot(PinnedProject(n, keep)) = FullRoot(n)
=============================================================================
