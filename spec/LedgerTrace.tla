---------------------------- MODULE LedgerTrace ----------------------------
(* Trace validation for Ledger.tla: a total monitor over the ndjson trace recorded by   *)
(* harness/src/ledger_run.rs.  For every block the node accepts, the monitor replays    *)
(* the block's transactions with the specification's ApplyTxs on its own copy of the    *)
(* ledger, evaluates the validity rules on the pre-state, the supply equation and the   *)
(* rebroadcast rule on the post-state, and compares its ledger with the node's.  Pool   *)
(* and wallet projections are checked after every operation.  Divergences are collected *)
(* in `bad`, tagged with the property they belong to.                                   *)
EXTENDS Ledger, Json, IOUtils

Rec == ndJsonDeserialize(IOEnv.TRACE)

VARIABLES l,      \* position in the trace
          bad,    \* divergences
          B,      \* label -> block record
          U,      \* label -> the specification's ledger after that block
          obs,    \* last observed node state [tip, tiph, utxo]
          pool,   \* id -> tx, the transactions the monitor believes pooled
          env     \* [g, issued, nodekey, reorgs]

tvars == <<l, bad, B, U, obs, pool, env>>

Rng(s) == {s[i] : i \in DOMAIN s}
T3(a) == <<a[1], a[2], a[3]>>

In(x)  == [o |-> x.o, owner |-> x.owner, amt |-> T3(x.amt), bh |-> x.bh, kind |-> x.kind]
Out(x) == [o |-> x.o, owner |-> x.owner, amt |-> T3(x.amt), kind |-> x.kind]
Tx(t) == [id |-> t.id, type |-> t.type, auto |-> t.auto, signer |-> t.signer, sigok |-> t.sigok,
          ins |-> [i \in DOMAIN t.ins |-> In(t.ins[i])], outs |-> [i \in DOMAIN t.outs |-> Out(t.outs[i])],
          hops |-> [i \in DOMAIN t.hops |-> <<t.hops[i][1], t.hops[i][2]>>], pathok |-> t.pathok, edit |-> t.edit,
          srcsize |-> t.src_size,
          inner |-> [known |-> t.inner.known, from0 |-> t.inner.from0,
                     hops |-> [i \in DOMAIN t.inner.hops |-> <<t.inner.hops[i][1], t.inner.hops[i][2]>>]]]
Hdr(h) == [treasury |-> T3(h.treasury), graveyard |-> T3(h.graveyard), unpaid |-> T3(h.unpaid),
           fees |-> T3(h.fees), afpb |-> h.afpb, payout_atr |-> T3(h.payout_atr)]
ObsUtxo(st) == {[o |-> x.o, owner |-> x.owner, amt |-> LimbNorm(T3(x.amt)), bh |-> x.bh, kind |-> x.kind]
                 : x \in {y \in Rng(st.utxo) : y.sp}}

(* edits of a block that keep its signed header: the transaction list or the signature is changed *)
C06Edits == {"drop_last_tx", "dup_first_tx", "swap_txs", "tamper_tx_data", "zero_root_drop_tx", "resign_other_key", "append_uncounted_tx",
             "bump_timestamp_nosign", "drop_all_txs", "flip_block_sig"}

NoSample == [bf |-> <<0, 0, 0>>, hb |-> <<0, 0, 0>>, dt |-> <<4194303, 0, 0>>, needed |-> <<0, 0, 0>>]

Bad(e, prop, why) == [pos |-> l, scn |-> e.scn, i |-> e.i, prop |-> prop, why |-> why, res |-> e.res]

RECURSIVE PathTo(_, _)
PathTo(BB, x) == IF x = "" \/ x \notin DOMAIN BB THEN <<>> ELSE Append(PathTo(BB, BB[x].parent), x)

(* ticket density for the window ending in block x (is_golden_ticket_count_valid_; Chain.tla GTOk), *)
(* evaluated on everything the monitor has seen: if it holds here it holds on the node's shorter memory *)
GtDense(BB, x) ==
    LET p == PathTo(BB, BB[x].parent)
        an == IF Len(p) <= 5 THEN p ELSE SubSeq(p, Len(p) - 4, Len(p))
        found == Cardinality({i \in DOMAIN an : BB[an[i]].gt}) + (IF BB[x].gt THEN 1 ELSE 0)
    IN IF Len(an) < 4 THEN TRUE ELSE IF Len(an) = 4 THEN found >= 1 ELSE found >= 2

(* the node's by-height index against a path of labels; heights at or below tiph - 2G have been purged ("-") *)
LcMatches(lc, path, tiph, G) ==
    /\ Len(lc) = Len(path)
    /\ \A i \in DOMAIN lc : lc[i] = path[i] \/ (lc[i] = "-" /\ i + 2 * G <= tiph)

InWin(u, tiph, G) == {x \in u : x.bh + G >= tiph}

PropOf(v) ==
    IF v = "outputs-exceed-inputs" THEN "C02" ELSE IF v = "bad-routing-path" THEN "C08" ELSE "C01"

IsPanic(res) == Len(res) >= 6 /\ SubSeq(res, 1, 6) = "Panic:"

(* ---- checks on a Block event ------------------------------------------------------ *)
BlockChecks(e, BB, UU) ==
    LET lab == e.label
        G == env.g
        T == [tip |-> IF e.st.tiph = 0 THEN "" ELSE e.st.tip, tiph |-> e.st.tiph, utxo |-> ObsUtxo(e.st)]
        adopted == e.res = "AddedLc" /\ T.tip = lab
        \* a block that was wound onto the chain before the node aborted has been accepted as well
        wound_then_panic == IsPanic(e.res) /\ T.tip = lab /\ obs.tip # lab
        newpath == PathTo(BB, lab)
        oldpath == PathTo(BB, obs.tip)
        wound == SelectSeq(newpath, LAMBDA x : x \notin Rng(oldpath))
        \* the ledger rules are checked on chains that start at the genesis block and that the node
        \* really wound block by block (its by-height index lists exactly the ancestors); a node
        \* that adopted a chain whose older blocks it never had runs without input checks
        rooted == newpath # <<>> /\ BB[newpath[1]].parent = "" /\ \A x \in Rng(newpath) : x \in DOMAIN UU
                  /\ (T.tip = lab => LcMatches(e.st.lc, newpath, T.tiph, G))
                  /\ ~env.detached
        pre(x) == IF BB[x].parent = "" THEN {} ELSE UU[BB[x].parent]
        viol(x) == BlockViolations(pre(x), BB[x].txs, BB[x].h, G)
        atrv(x) == AtrViolations(pre(x), BB[x].txs, BB[x].h, G)
        \* Known finding: a reorganisation that unwinds a retention window or more takes the tip below the
        \* blocks the node looks at to decide that its ledger is complete (they were purged for the old tip);
        \* the first blocks of the new chain - heights up to old tip - G + 1 - are then wound without the
        \* ledger checks.  Violations in exactly those blocks carry the tag.
        blind(x) == obs.tiph > 2 * G /\ BB[x].h + G <= obs.tiph + 1 /\ BB[lab].parent # obs.tip
        tagof(x) == IF blind(x) THEN "-by-a-reorganisation-as-deep-as-the-window" ELSE ""
        taintnow == (adopted \/ wound_then_panic) /\ rooted
                    /\ \E x \in Rng(wound) : blind(x) /\ (viol(x) # {} \/ atrv(x) # {})
        c01 == IF (adopted \/ wound_then_panic) /\ rooted
               THEN UNION {{Bad(e, PropOf(v), v \o tagof(x) \o " in " \o x) : v \in viol(x)} : x \in Rng(wound)}
               ELSE {}
        c13 == IF (adopted \/ wound_then_panic) /\ rooted
               THEN UNION {{Bad(e, "C13", v \o tagof(x) \o " in " \o x) : v \in atrv(x)} : x \in Rng(wound)}
               ELSE {}
        \* the amount a rebroadcast output reappears with: value minus size of the carrying transaction times the smoothed fee per
        \* byte of the parent block (no treasury premium in this block; single-slip rebroadcasts)
        atrfee(t, x) == t.srcsize * BB[BB[x].parent].hdr.afpb
        plain(t) == Len(t.ins) = 1 /\ Len(t.outs) = 1 /\ t.ins[1].kind # KBound
        c13f == IF adopted /\ rooted
                THEN UNION {{Bad(e, "C13", "rebroadcast-amount-not-value-minus-fee in " \o x)
                               : t \in {u \in Rng(AtrTxs(BB[x].txs)) : plain(u) /\ u.srcsize > 0 /\ BB[x].parent # ""
                                            /\ IsZero(BB[x].hdr.payout_atr) /\ u.srcsize < 100000 /\ BB[BB[x].parent].hdr.afpb < 10000
                                            /\ ~LimbEq(LimbAdd(u.outs[1].amt, LimbOfNat(atrfee(u, x))), u.ins[1].amt)}}
                           : x \in Rng(wound)}
                ELSE {}
        c13b == IF adopted /\ rooted /\ \E x \in T.utxo : x.kind # KBound /\ x.bh + G < T.tiph
                      /\ x.o \in Names(InWin(UU[lab], T.tiph, G))
                THEN {} ELSE {}
        c03 == IF adopted /\ rooted
                  /\ Names(InWin(T.utxo, T.tiph, G)) # Names(InWin(UU[lab], T.tiph, G))
               THEN {Bad(e, "C03", "ledger-differs-from-replay")} ELSE {}
        \* the supply equation is evaluated on every observed state, with the header of whatever
        \* block is the tip then (after a rejected block: the old tip's)
        tiphdr == IF T.tip = lab THEN Hdr(e.hdr) ELSE IF T.tip \in DOMAIN BB THEN BB[T.tip].hdr ELSE Hdr(e.hdr)
        c02 == IF T.tip # "" /\ T.tip # "?" /\ (T.tip = lab \/ T.tip \in DOMAIN BB) /\ ~env.detached
                  /\ LcMatches(e.st.lc, PathTo(BB, T.tip), T.tiph, G)
                  /\ ~LimbEq(Supply(T.utxo, T.tiph, G, tiphdr), env.issued)
               THEN {Bad(e, "C02", (IF adopted THEN "supply-changed"
                                    ELSE IF IsPanic(e.res) THEN "supply-changed-before-abort"
                                    ELSE "supply-changed-by-unaccepted-block")
                                   \* known finding: the chain holds a block that was wound without the ledger checks
                                   \* and breaks them (its value was created or destroyed there)
                                   \o (IF env.tainted \/ taintnow THEN "-after-a-reorganisation-as-deep-as-the-window"
                                       \* known finding (C12): a restart with a competing branch on disk may come up on that
                                       \* branch, whose blocks are loaded without the ledger checks
                                       ELSE IF env.rtaint THEN "-after-a-restart-onto-a-competing-branch" ELSE ""))} ELSE {}
        c04 == IF e.res \in {"Invalid", "Exists"} /\ (T.utxo # obs.utxo \/ T.tip # obs.tip)
               THEN {Bad(e, "C04", "rejected-block-changed-ledger")} ELSE {}
        \* C08: routing work of a block against the requirement
        short(x) == BB[x].parent # "" /\ LimbLt(BlockWork(BB[x].txs, BB[x].creator), BB[x].needed)
        honest == e.x.bedit = "" /\ rooted /\ viol(lab) = {} /\ e.who = "builder"
                  /\ BB[lab].parent = obs.tip /\ ~e.x.redelivery /\ ~short(lab) /\ GtDense(BB, lab)
        c07 == (IF e.who = "node" /\ e.res # "AddedLc"
                THEN {Bad(e, "C07", "own-block-rejected-by-producer")} ELSE {})
               \cup (IF e.who = "node" /\ e.x.replica # "" /\ e.x.replica # "AddedLc"
                     THEN {Bad(e, "C07", "own-block-rejected-by-replica")} ELSE {})
               \cup (IF honest /\ e.res # "AddedLc"
                     THEN {Bad(e, "C07", "honest-block-rejected")} ELSE {})
        c13r == IF honest /\ e.res # "AddedLc" /\ e.h > G + 1 /\ Leaving(pre(lab), e.h, G) # {}
                THEN {Bad(e, "C13", "honest-block-that-rebroadcasts-rejected")} ELSE {}
        c06 == (IF adopted
                THEN {Bad(e, "C06", "edited-block-accepted:" \o BB[x].bedit \o " in " \o x)
                        : x \in {y \in Rng(wound) : BB[y].bedit \in C06Edits}}
                ELSE {})
               \cup (IF e.x.tag = "genesis-edit" /\ e.x.bedit \in C06Edits /\ e.res = "AddedLc"
                     THEN {Bad(e, "C06", "edited-block-accepted:" \o e.x.bedit \o " as the first block")} ELSE {})
        \* (known finding: a block wound without the ledger checks by a reorganisation as deep as the window breaks them;
        \* the node's own supply self-check notices right after winding and stops the node)
        pan == IF IsPanic(e.res) THEN {Bad(e, "C11", IF env.detached THEN "panic-on-chain-without-known-ancestors"
                                                     ELSE IF taintnow \/ env.tainted THEN "panic-after-a-reorganisation-as-deep-as-the-window"
                                                     ELSE "panic")} ELSE {}
        \* the work the node computed for the block, against the definition (valid paths only)
        c08k == IF e.x.bedit = "" /\ \A i \in DOMAIN BB[lab].txs : BB[lab].txs[i].pathok
                   /\ ~LimbEq(BlockWork(BB[lab].txs, BB[lab].creator), T3(e.hdr.work))
                THEN {Bad(e, "C08", "block-work-differs-from-definition")} ELSE {}
        \* C08: every block the node wound had the work; payouts
        \* (the work of a block and the requirement are functions of the block and its parent's header: they are
        \* judged on every block the node wound, also on a chain that does not start at the genesis block and
        \* also when the node aborted after winding the block)
        c08w == IF adopted \/ wound_then_panic
                THEN {Bad(e, "C08", "accepted-with-insufficient-routing-work in " \o x) : x \in {y \in Rng(wound) : short(y)}}
                ELSE {}
        par(x) == BB[x].parent
        gpar(x) == IF par(x) = "" THEN "" ELSE BB[par(x)].parent
        paid2(x) == par(x) # "" /\ ~BB[par(x)].gt /\ gpar(x) # ""
        elig(x) == {BB[x].gtkey} \cup (IF par(x) = "" THEN {} ELSE EligibleOf(BB[par(x)].txs))
                     \cup (IF paid2(x) THEN EligibleOf(BB[gpar(x)].txs) ELSE {})
        collected(x) == IF par(x) = "" THEN LimbZero
                        ELSE LimbAdd(BB[par(x)].hdr.fees, IF paid2(x) THEN BB[gpar(x)].hdr.fees ELSE LimbZero)
        feetxs(x) == SelectSeq(BB[x].txs, LAMBDA t : t.type = TFee /\ t.auto)
        feeouts(x) == UNION {{t.outs[i] : i \in {j \in DOMAIN t.outs : ~IsZero(t.outs[j].amt)}} : t \in Rng(feetxs(x))}
        c08p == IF (adopted \/ wound_then_panic) /\ rooted
                THEN UNION {{Bad(e, "C08", "payout-to-ineligible-key:" \o o.owner \o " in " \o x)
                               : o \in {y \in feeouts(x) : y.owner \notin elig(x)}} : x \in Rng(wound)}
                     \cup {Bad(e, "C08", "payout-exceeds-fees-collected in " \o x)
                               : x \in {y \in Rng(wound) : ~LimbLeq(SumOutsOf(feetxs(y)), collected(y))}}
                ELSE {}
        \* the requirement itself, against its definition (small values)
        c08n == IF e.parent # "" /\ LimbIsSmall(T3(e.hdr.pbf)) /\ e.hdr.dt < 500000000 /\ e.hdr.dt > 0 /\ e.hb < 500000000
                   /\ LET ref == NeededRef(LimbToNat(T3(e.hdr.pbf)), e.hdr.dt, e.hb)
                          n == T3(e.hdr.needed)
                      IN ~(LimbIsSmall(n) /\ LimbToNat(n) + 1 >= ref /\ LimbToNat(n) <= ref + 1)
                THEN {Bad(e, "C08", "requirement-differs-from-definition")} ELSE {}
        \* C05 on chains that wrap the retention window: the tip never gets lower, only moves to a higher
        \* block, and a valid block extending the tip becomes the tip
        c05 == (IF ~IsPanic(e.res) /\ T.tiph < obs.tiph
                THEN {Bad(e, "C05", "tip-height-decreased")} ELSE {})
               \cup (IF adopted /\ obs.tip # "" /\ e.h <= obs.tiph
                     THEN {Bad(e, "C05", "tip-moved-to-chain-not-longer")} ELSE {})
               \cup (IF honest /\ ~IsPanic(e.res) /\ ~(adopted /\ T.tiph = e.h)
                     THEN {Bad(e, "C05", "valid-extension-of-the-tip-not-adopted")} ELSE {})
    IN c01 \cup c13 \cup c13f \cup c13r \cup c03 \cup c02 \cup c04 \cup c05 \cup c07 \cup c06 \cup pan \cup c08w \cup c08p \cup c08n \cup c08k

(* the block event adopts a chain in which a block wound without the ledger checks (known finding: a    *)
(* reorganisation as deep as the window) breaks them; same definitions as in BlockChecks               *)
TaintNow(e, BB, UU) ==
    LET lab == e.label
        G == env.g
        T == [tip |-> IF e.st.tiph = 0 THEN "" ELSE e.st.tip, tiph |-> e.st.tiph]
        adopted == e.res = "AddedLc" /\ T.tip = lab
        wound_then_panic == IsPanic(e.res) /\ T.tip = lab /\ obs.tip # lab
        newpath == PathTo(BB, lab)
        oldpath == PathTo(BB, obs.tip)
        wound == SelectSeq(newpath, LAMBDA x : x \notin Rng(oldpath))
        rooted == newpath # <<>> /\ BB[newpath[1]].parent = "" /\ \A x \in Rng(newpath) : x \in DOMAIN UU
                  /\ (T.tip = lab => LcMatches(e.st.lc, newpath, T.tiph, G)) /\ ~env.detached
        pre(x) == IF BB[x].parent = "" THEN {} ELSE UU[BB[x].parent]
        blind(x) == obs.tiph > 2 * G /\ BB[x].h + G <= obs.tiph + 1 /\ BB[lab].parent # obs.tip
    IN (adopted \/ wound_then_panic) /\ rooted
       /\ \E x \in Rng(wound) : blind(x) /\ (BlockViolations(pre(x), BB[x].txs, BB[x].h, G) # {}
                                              \/ AtrViolations(pre(x), BB[x].txs, BB[x].h, G) # {})

(* ---- pool (C14) and wallet (C19) checks on any observed state --------------------- *)
PoolChecks(e, st, P, u, tiph) ==
    LET G == env.g
        ids == Rng(st.pool)
        known == {id \in ids : id \in DOMAIN P}
        inputs(t) == {t.ins[i].o : i \in {j \in DOMAIN t.ins : ~IsZero(t.ins[j].amt)}}
        shared == \E a, b \in known : a # b /\ inputs(P[a]) \cap inputs(P[b]) # {}
        stale == {id \in known : ~TxValid(u, P[id], tiph + 1, G)}
        allin == UNION {inputs(P[id]) : id \in known}
        locked == {n \in Rng(st.reserved) : n \notin allin /\ n \in Names(u)}
    IN (IF shared THEN {Bad(e, "C14", "two-pooled-transactions-share-an-input")} ELSE {})
       \cup {Bad(e, "C14", "pooled-transaction-invalid-against-ledger:" \o id) : id \in stale}
       \cup {Bad(e, "C14", "unspent-output-locked-by-no-pooled-transaction:" \o n) : n \in locked}

(* the payload of an NFT (the slip between two bound slips of one transaction) is held by the wallet as *)
(* part of the NFT, not as spendable money                                                            *)
NftPayloads(BB) ==
    UNION {UNION {{t.outs[i].o : i \in {j \in 2..(Len(t.outs) - 1) : t.outs[j - 1].kind = KBound /\ t.outs[j + 1].kind = KBound}}
                  : t \in Rng(BB[lab].txs)} : lab \in DOMAIN BB}

WalletChecksR(e, st, u, tiph, wc, BB, reorgnow) ==
    LET G == env.g
        w == st.wallet
        listed == {x \in Rng(w.slips) : x.o \in Rng(w.unspent)}
        sum == SumSet({[o |-> x.o, amt |-> T3(x.amt)] : x \in listed})
        mine == {x.o : x \in {y \in u : y.owner = env.nodekey /\ y.kind # KBound /\ y.bh + G >= tiph}} \ NftPayloads(BB)
        \* outputs exactly at the window edge are being rebroadcast or - too small to pay for it - collected by the
        \* tip; a collected output's entry lingers in the map although nobody can spend it, and the wallet has
        \* dropped it: the edge is left out of the comparison on both sides
        edge == {y.o : y \in {z \in u : z.bh + G = tiph}}
    IN (IF ~LimbEq(sum, T3(w.balance)) THEN {Bad(e, "C19", "balance-differs-from-unspent-sum")} ELSE {})
       \* wc: outputs the wallet has committed to transactions it built since it was started (a transaction that left
       \* the node's pool may still confirm elsewhere: the wallet keeps its inputs committed)
       \* (C19 demands the set equality on chains without reorganisation: not from the first one on)
       \cup (IF env.reorgs = 0 /\ ~reorgnow /\ w.pending = 0 /\ Rng(w.unspent) \ edge # (mine \ wc) \ edge
             THEN {Bad(e, "C19", IF wc = {} THEN "wallet-unspent-differs-from-ledger" ELSE "wallet-unspent-differs-from-ledger-minus-committed")}
             ELSE {})

WalletChecksIn(e, st, u, tiph, wc, BB) == WalletChecksR(e, st, u, tiph, wc, BB, FALSE)
WalletChecks(e, st, u, tiph, wc) == WalletChecksIn(e, st, u, tiph, wc, B)

(* a payment built by the node's own wallet: distinct existing inputs of its own key, outputs not exceeding *)
(* inputs, valid against the ledger it was built on - and therefore accepted by the node's own pool        *)
OnWalletTx(e) ==
    IF ~e.built
    THEN /\ bad' = bad \cup (IF IsPanic(e.res) THEN {Bad(e, "C19", "wallet-panicked")} ELSE {})
                       \cup (IF IsPanic(e.res) THEN {} ELSE WalletChecks(e, e.st, obs.utxo, obs.tiph, env.wc))
         /\ UNCHANGED <<B, U, obs, pool, env>>
    ELSE LET t == Tx(e.tx)
             v == TxViolations(obs.utxo, t, obs.tiph + 1, env.g)
             inputs(x) == {x.ins[i].o : i \in {j \in DOMAIN x.ins : ~IsZero(x.ins[j].amt)}}
             conflict == \E id \in DOMAIN pool : inputs(pool[id]) \cap inputs(t) # {}
             pooled == e.res = "Pooled"
             P2 == IF pooled THEN (t.id :> t) @@ pool ELSE pool
             wc2 == env.wc \cup {t.ins[i].o : i \in DOMAIN t.ins}
         IN /\ pool' = P2
            /\ env' = [env EXCEPT !.wc = wc2]
            /\ bad' = bad
                 \cup {Bad(e, "C19", "wallet-built-invalid-transaction:" \o x) : x \in v}
                 \cup (IF conflict THEN {Bad(e, "C19", "wallet-spent-an-output-committed-to-a-pooled-transaction")} ELSE {})
                 \* ("Duplicate": the payment has the signature of one already pooled - signatures do not cover
                 \* which output is spent, only owner, amount and type - and the pool keeps the first)
                 \cup (IF ~pooled /\ e.res # "Duplicate" /\ ~IsPanic(e.res) /\ v = {} /\ ~conflict
                       THEN {Bad(e, "C19", "own-valid-transaction-refused-by-pool")} ELSE {})
                 \cup (IF IsPanic(e.res) THEN {Bad(e, "C11", "panic")} ELSE WalletChecks(e, e.st, obs.utxo, obs.tiph, wc2))
            /\ UNCHANGED <<B, U, obs>>

(* ---- the monitor ------------------------------------------------------------------ *)
TraceInit ==
    /\ l = 1 /\ bad = {} /\ B = <<>> /\ U = <<>> /\ pool = <<>>
    /\ obs = [tip |-> "", tiph |-> 0, utxo |-> {}]
    /\ env = [g |-> 100, issued |-> LimbZero, nodekey |-> "", reorgs |-> 0, detached |-> FALSE, nd |-> NoSample, wc |-> {}, tainted |-> FALSE, rtaint |-> FALSE, maxtip |-> 0]

OnReset(e) ==
    /\ B' = <<>> /\ U' = <<>> /\ pool' = <<>>
    /\ obs' = [tip |-> "", tiph |-> 0, utxo |-> {}]
    /\ env' = [g |-> e.g, issued |-> T3(e.issued), nodekey |-> e.node_key, reorgs |-> 0, detached |-> FALSE, nd |-> NoSample, wc |-> {}, tainted |-> FALSE, rtaint |-> FALSE, maxtip |-> 0]
    /\ bad' = bad

OnBlock(e) ==
    LET lab == e.label
        rec == [parent |-> e.parent, h |-> e.h, txs |-> [i \in DOMAIN e.txs |-> Tx(e.txs[i])], gt |-> e.gt,
                hdr |-> Hdr(e.hdr), bedit |-> e.x.bedit, creator |-> e.creator, gtkey |-> e.gtkey, needed |-> T3(e.hdr.needed)]
        BB == IF lab \in DOMAIN B THEN B ELSE (lab :> rec) @@ B
        parentU == IF e.parent = "" THEN {} ELSE IF e.parent \in DOMAIN U THEN U[e.parent] ELSE {}
        known == e.parent = "" \/ e.parent \in DOMAIN U
        UU == IF lab \in DOMAIN U \/ ~known THEN U ELSE (lab :> ApplyTxs(parentU, rec.txs, e.h)) @@ U
        T == [tip |-> IF e.st.tiph = 0 THEN "" ELSE e.st.tip, tiph |-> e.st.tiph, utxo |-> ObsUtxo(e.st)]
        \* a reorganisation, or the attempt of one: a candidate above the tip that does not extend it and is refused
        \* after unwinding and re-winding (the wallet goes through both)
        isreorg == obs.tip # "" /\ e.parent # obs.tip
                   /\ (e.res = "AddedLc" \/ (e.res = "Invalid" /\ e.h > obs.tiph))
        confirmed == IF e.res = "AddedLc" THEN {rec.txs[i].id : i \in DOMAIN rec.txs} ELSE {}
        P2 == [id \in (DOMAIN pool \cap Rng(e.st.pool)) |-> pool[id]]
    IN /\ B' = BB /\ U' = UU
       /\ obs' = T
       /\ pool' = P2
       /\ env' = [env EXCEPT !.reorgs = IF isreorg THEN @ + 1 ELSE @,
                              !.detached = @ \/ (T.tip \in DOMAIN BB /\ ~LcMatches(e.st.lc, PathTo(BB, T.tip), T.tiph, env.g)),
                              !.tainted = @ \/ TaintNow(e, BB, UU),
                              !.maxtip = IF T.tiph > @ THEN T.tiph ELSE @]
       /\ bad' = bad \cup BlockChecks(e, BB, UU)
                     \cup (IF IsPanic(e.res) THEN {} ELSE PoolChecks(e, e.st, P2, T.utxo, T.tiph))
                     \cup (IF IsPanic(e.res) THEN {} ELSE WalletChecksR(e, e.st, T.utxo, T.tiph, env.wc, BB, isreorg))

OnSubmit(e) ==
    LET t == Tx(e.tx)
        G == env.g
        v == TxViolations(obs.utxo, t, obs.tiph + 1, G)   \* the next block is the earliest that can carry it
        inputs(x) == {x.ins[i].o : i \in {j \in DOMAIN x.ins : ~IsZero(x.ins[j].amt)}}
        conflict == \E id \in DOMAIN pool : inputs(pool[id]) \cap inputs(t) # {}
        pooled == e.res = "Pooled"
        P2 == IF pooled THEN (t.id :> t) @@ pool ELSE pool
    IN /\ pool' = P2
       /\ bad' = bad
            \cup (IF pooled THEN {Bad(e, PropOf(x), "pool-admitted:" \o x) : x \in v} ELSE {})
            \cup (IF pooled /\ conflict THEN {Bad(e, "C14", "pool-admitted-conflicting-transaction")} ELSE {})
            \cup (IF ~pooled /\ ~IsPanic(e.res) /\ v = {} /\ ~conflict /\ t.id \notin DOMAIN pool
                     /\ e.tag # "dup" /\ t.type = TNormal
                  THEN {Bad(e, "C14", "valid-unconflicted-transaction-refused")} ELSE {})
            \cup (IF IsPanic(e.res) THEN {Bad(e, "C11", "panic")} ELSE {})
            \cup (IF IsPanic(e.res) THEN {} ELSE PoolChecks(e, e.st, P2, obs.utxo, obs.tiph))
            \cup (IF IsPanic(e.res) THEN {} ELSE WalletChecks(e, e.st, obs.utxo, obs.tiph, env.wc))
       /\ UNCHANGED <<B, U, obs, env>>

(* ---- restart from the block files (C12) ------------------------------------------- *)
ViewOf(st) == [tip |-> IF st.tiph = 0 THEN "" ELSE st.tip, tiph |-> st.tiph, utxo |-> ObsUtxo(st)]
SupplyOk(e, st) ==      \* the supply equation on a state whose tip is a known block of a chain rooted in genesis
    LET T == ViewOf(st) IN
    T.tip \in DOMAIN B /\ LcMatches(st.lc, PathTo(B, T.tip), T.tiph, env.g)
       => LimbEq(Supply(T.utxo, T.tiph, env.g, B[T.tip].hdr), env.issued)
Rooted(st) == LET T == ViewOf(st) IN T.tip \in DOMAIN B /\ LcMatches(st.lc, PathTo(B, T.tip), T.tiph, env.g)

(* a clean restart rebuilds the same tip, the same spendable in-window outputs and the same supply *)
OnRestart(e) ==
    LET a == ViewOf(e.pre)  b == ViewOf(e.st)  G == env.g IN
    /\ bad' = bad
         \cup (IF IsPanic(e.res) THEN {Bad(e, "C12", IF e.competing > 0 THEN "restart-panicked-with-competing-branch-on-disk" ELSE "restart-panicked")} ELSE
               (IF b.tip # a.tip
                \* a higher tip after the restart: the order dependence of the fork choice again (a longer branch with a
                \* lower cumulative burn fee was not adopted while running, the replay order adopts it) - unless the running
                \* node had been higher before, i.e. had lost blocks it once held
                THEN {Bad(e, "C12", IF b.tiph > a.tiph /\ ~(e.competing > 0 /\ a.tiph >= env.maxtip) THEN "restart-raised-the-tip"
                                    ELSE IF e.competing > 0 THEN "restart-changed-tip-with-competing-branch-on-disk"
                                    ELSE "restart-changed-tip")}
                ELSE {})
               \cup (IF b.tip = a.tip /\ Names(InWin(b.utxo, b.tiph, G)) # Names(InWin(a.utxo, a.tiph, G))
                     \* a node that an earlier restart left on a tip below blocks it has on disk (known finding:
                     \* the restarted tip depends on the replay order when a competing branch is on disk) holds
                     \* in-window outputs of blocks that were purged from disk when its tip was higher
                     THEN {Bad(e, "C12", IF e.competing > 0 /\ a.tiph < e.disk_top
                                         THEN "restart-changed-spendable-outputs-on-a-tip-below-the-blocks-on-disk"
                                         ELSE "restart-changed-spendable-outputs")} ELSE {})
               \* (a restart that comes up on a competing branch - known finding - loads its blocks without the ledger
               \* checks: a branch holding a double spend becomes the chain, now or at an earlier restart)
               \cup (IF ~env.detached /\ ~SupplyOk(e, e.st)
                     THEN {Bad(e, "C12", IF env.tainted \/ env.rtaint \/ (b.tip # a.tip /\ e.competing > 0)
                                         THEN "restart-changed-supply-with-competing-branch-on-disk"
                                         ELSE "restart-changed-supply")} ELSE {}))
    /\ obs' = IF IsPanic(e.res) THEN obs ELSE b
    /\ pool' = [id \in (DOMAIN pool \cap Rng(e.st.pool)) |-> pool[id]]     \* the pool is not persisted
    /\ env' = [env EXCEPT !.wc = {},                                     \* nor are the wallet's commitments
                           !.rtaint = @ \/ (~IsPanic(e.res) /\ b.tip # a.tip /\ e.competing > 0),
                           !.maxtip = IF ~IsPanic(e.res) /\ b.tiph > @ THEN b.tiph ELSE @]
    /\ UNCHANGED <<B, U>>

(* a crash after any prefix of the storage operations, last write complete / absent / torn: the node comes up, on a *)
(* block it knew before (the old tip, an ancestor, a block of a known branch), with the supply intact, and goes on  *)
OnCrash(e) ==
    LET b == ViewOf(e.st)
        anc == Rng(PathTo(B, e.pretip)) IN
    /\ bad' = bad
         \cup (IF IsPanic(e.res)
               THEN {Bad(e, "C12", IF e.competing > 0 THEN "restart-panicked-with-competing-branch-on-disk" ELSE "restart-after-crash-panicked:" \o e.torn)} ELSE
               (IF b.tip = "" /\ e.intact > 0 THEN {Bad(e, "C12", "came-up-without-chain-despite-intact-blocks")} ELSE {})
               \cup (IF b.tip # "" /\ b.tip \notin DOMAIN B THEN {Bad(e, "C12", "came-up-on-unknown-block")} ELSE {})
               \cup (IF b.tip # "" /\ ~env.detached /\ Rooted(e.st) /\ ~SupplyOk(e, e.st)
                     THEN {Bad(e, "C12", IF e.competing > 0 /\ (env.tainted \/ env.rtaint \/ b.tip # e.pretip)
                                         THEN "supply-not-conserved-after-crash-with-competing-branch-on-disk"
                                         ELSE "supply-not-conserved-after-crash")} ELSE {})
               \cup (IF b.tip \in DOMAIN B /\ ~env.detached /\ Rooted(e.st) /\ e.extend # "AddedLc"
                     THEN {Bad(e, "C12", "cannot-extend-chain-after-crash:" \o e.extend)} ELSE {}))
    /\ UNCHANGED <<B, U, obs, pool, env>>

(* a sample of the requirement function (C08): zero from two heartbeats on, never larger than at a   *)
(* shorter elapsed time for the same burn fee, equal to its definition where that is computable here *)
OnNeeded(e) ==
    LET bf == T3(e.bf)  dt == T3(e.dt)  hb == T3(e.hbl)  n == T3(e.needed)
        prev == env.nd
        small == LimbIsSmall(bf) /\ LimbIsSmall(dt) /\ LimbIsSmall(hb) /\ ~IsZero(dt)
    IN \* elapsed time 0 ("times misordered") returns a sentinel, not a requirement: not a sample
       /\ env' = [env EXCEPT !.nd = IF IsZero(dt) THEN NoSample ELSE [bf |-> bf, hb |-> hb, dt |-> dt, needed |-> n]]
       /\ bad' = bad
            \cup (IF IsPanic(e.res) THEN {Bad(e, "C08", "requirement-function-panicked")} ELSE {})
            \cup (IF LimbLeq(LimbAdd(hb, hb), dt) /\ ~IsZero(n)
                  THEN {Bad(e, "C08", "requirement-not-zero-after-two-heartbeats")} ELSE {})
            \cup (IF LimbEq(prev.bf, bf) /\ LimbEq(prev.hb, hb) /\ LimbLeq(prev.dt, dt) /\ ~LimbLeq(n, prev.needed)
                  THEN {Bad(e, "C08", "requirement-increases-with-elapsed-time")} ELSE {})
            \cup (IF small /\ LET ref == NeededRef(LimbToNat(bf), LimbToNat(dt), LimbToNat(hb))
                                IN ~(LimbIsSmall(n) /\ LimbToNat(n) + 1 >= ref /\ LimbToNat(n) <= ref + 1)
                  THEN {Bad(e, "C08", "requirement-differs-from-definition")} ELSE {})
       /\ UNCHANGED <<B, U, obs, pool>>

(* pool entries the harness did not submit (the node's own staking transaction) are shown as "?..." *)
UserIds(p) == {x \in Rng(p) : SubSeq(x, 1, 1) # "?"}

OnBundle(e) ==  \* the producer declined or panicked: pool must be untouched (C14)
    /\ bad' = bad
         \cup (IF IsPanic(e.res) THEN {Bad(e, "C07", "producer-panic")} ELSE {})
         \cup (IF e.res = "Declined" /\ (UserIds(e.pre.pool) # UserIds(e.st.pool) \/ e.pre.reserved # e.st.reserved)
               THEN {Bad(e, "C14", "declined-bundle-changed-pool")} ELSE {})
    /\ UNCHANGED <<B, U, obs, pool, env>>

TraceNext ==
    /\ l <= Len(Rec)
    /\ LET e == Rec[l] IN
       CASE e.ev = "Reset"  -> OnReset(e)
         [] e.ev = "Block"  -> OnBlock(e)
         [] e.ev = "Submit" -> OnSubmit(e)
         [] e.ev = "Bundle" -> OnBundle(e)
         [] e.ev = "Needed" -> OnNeeded(e)
         [] e.ev = "WalletTx" -> OnWalletTx(e)
         [] e.ev = "Nft" -> OnWalletTx(e)
         [] e.ev = "Restart" -> OnRestart(e)
         [] e.ev = "Crash" -> OnCrash(e)
         [] OTHER -> UNCHANGED <<bad, B, U, obs, pool, env>>
    /\ l' = l + 1

TraceSpec == TraceInit /\ [][TraceNext]_tvars

TraceDone == PrintT(<<"TRACE-CONSUMED", TLCGet("stats").diameter - 1, Len(Rec)>>)
ReportBad == (l = Len(Rec) + 1) => \A x \in bad : PrintT(<<"BAD", ToJson(x)>>)
=============================================================================
