------------------------------ MODULE LocksApa ------------------------------
(* Locks.tla with type annotations for Apalache: for EVERY set of (held, acquired) pairs that respects the *)
(* documented ranks, three tasks taking any of the pairs in any interleaving never all wait (bounded).    *)
EXTENDS Integers, FiniteSets

CONSTANTS
    \* @type: Set(<<Int, Int>>);
    Edges

VARIABLES
    \* @type: Int -> Int;
    holder,
    \* @type: Int -> Int;
    st,
    \* @type: Int -> <<Int, Int>>;
    ed

Locks == 3..7          \* a lock is identified with its rank
Tasks == 1..3

ConstInitAny == Edges \in SUBSET (Locks \X Locks)

ConstInit == /\ Edges \in SUBSET (Locks \X Locks)
             /\ \A e \in Edges : e[1] < e[2]            \* Ordered

Init == /\ holder = [l \in Locks |-> 0]
        /\ st = [t \in Tasks |-> 0]
        /\ ed = [t \in Tasks |-> <<3, 3>>]

First(t) == \E e \in Edges :
    /\ st[t] = 0 /\ holder[e[1]] = 0
    /\ holder' = [holder EXCEPT ![e[1]] = t]
    /\ st' = [st EXCEPT ![t] = 1]
    /\ ed' = [ed EXCEPT ![t] = e]

Second(t) ==
    /\ st[t] = 1 /\ holder[ed[t][2]] = 0
    /\ holder' = [holder EXCEPT ![ed[t][2]] = t]
    /\ st' = [st EXCEPT ![t] = 2]
    /\ UNCHANGED ed

Release(t) ==
    /\ st[t] = 2
    /\ holder' = [l \in Locks |-> IF holder[l] = t THEN 0 ELSE holder[l]]
    /\ st' = [st EXCEPT ![t] = 0]
    /\ UNCHANGED ed

Next == \E t \in Tasks : First(t) \/ Second(t) \/ Release(t)

Waiting(t) == st[t] = 1 /\ holder[ed[t][2]] # 0
NoDeadlock == ~(\A t \in Tasks : Waiting(t))
=============================================================================
