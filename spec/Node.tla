-------------------------------- MODULE Node --------------------------------
(***************************************************************************)
(* The node as its peers see it: connection events, peer messages, block   *)
(* fetch completions and the internal hand-over between the routing,       *)
(* verification and consensus handlers.                             C11    *)
(*                                                                         *)
(* Every input has an outcome; there is no crash outcome.  Inputs are      *)
(* either acceptable (honest traffic, or valid data from anybody) or       *)
(* `hostile': input the node must reject or ignore.  What honest peers can *)
(* observe of the node - HonestView - is not changed by hostile input, and *)
(* honest synchronisation completes whatever hostile input is interleaved. *)
(*                                                                         *)
(* One action per handler call of the implementation:                      *)
(*   Open / Close / Auth        Network::handle_new_peer, _peer_disconnect,*)
(*                              _handshake_response                        *)
(*   Announce                   BlockHeaderHash -> sync state -> fetch     *)
(*   Fetched / FetchFailed      NetworkEvent::BlockFetched / BlockFetchFailed *)
(*   Tx                         Message::Transaction                       *)
(*   Junk                       any message the node has to reject         *)
(*   RunVerify / RunConsensus   one item of an internal queue              *)
(***************************************************************************)
EXTENDS Naturals, Sequences, FiniteSets, TLC

CONSTANTS Conns,        \* connection ids
          Honest,       \* the connections of honest peers
          MaxH,         \* height of the honest chain
          StartH,       \* height the node starts at
          TxIds,        \* acceptable transactions
          Budget        \* messages per connection before the rate limiter cuts in

VARIABLES peers,      \* conn -> "none" | "open" | "auth"
          used,       \* conn -> messages counted by the rate limiter
          tip,        \* height of the node's validated chain
          have,       \* heights validated or waiting as orphans
          queue,      \* conn -> heights announced by the peer and not fetched yet
          vq,         \* verification queue: items [kind, conn, h, ok]
          cq,         \* consensus queue
          pool,       \* pooled transactions
          out         \* outcome of the last input

vars == <<peers, used, tip, have, queue, vq, cq, pool, out>>

Hostile == Conns \ Honest
Outcomes == {"handled", "rejected", "ratelimited", "disconnected", "ignored", "internal"}

TypeOK ==
    /\ peers \in [Conns -> {"none", "open", "auth"}]
    /\ used \in [Conns -> 0..(Budget + 1)]
    /\ tip \in StartH..MaxH
    /\ have \subseteq 1..MaxH
    /\ queue \in [Conns -> SUBSET (1..(MaxH + 2))]
    /\ pool \subseteq TxIds
    /\ out \in Outcomes

Init ==
    /\ peers = [c \in Conns |-> "none"]
    /\ used = [c \in Conns |-> 0]
    /\ tip = StartH /\ have = 1..StartH
    /\ queue = [c \in Conns |-> {}]
    /\ vq = <<>> /\ cq = <<>> /\ pool = {}
    /\ out = "internal"

(* the rate limiter: every message of a connected peer is counted; beyond the budget it is dropped *)
Limited(c) == used[c] >= Budget
Count(c) == used' = [used EXCEPT ![c] = IF @ > Budget THEN @ ELSE @ + 1]

Open(c) ==
    /\ peers[c] = "none"
    /\ peers' = [peers EXCEPT ![c] = "open"]
    /\ out' = "handled"
    /\ UNCHANGED <<used, tip, have, queue, vq, cq, pool>>

Close(c) ==
    /\ peers' = [peers EXCEPT ![c] = "none"]
    /\ used' = [used EXCEPT ![c] = 0]
    /\ queue' = [queue EXCEPT ![c] = {}]      \* what was to be fetched from it is forgotten
    /\ out' = IF peers[c] = "none" THEN "ignored" ELSE "handled"
    /\ UNCHANGED <<tip, have, vq, cq, pool>>

Auth(c) ==
    /\ peers[c] = "open"
    /\ peers' = [peers EXCEPT ![c] = "auth"]
    /\ Count(c) /\ out' = "handled"
    /\ UNCHANGED <<tip, have, queue, vq, cq, pool>>

(* a message from a connection the node does not know is dropped *)
Unknown(c) == peers[c] = "none"

Announce(c, h) ==       \* BlockHeaderHash
    /\ IF Unknown(c) THEN out' = "ignored" /\ UNCHANGED <<used, queue>>
       ELSE IF Limited(c) THEN out' = "ratelimited" /\ UNCHANGED <<used, queue>>
       ELSE /\ Count(c) /\ out' = "handled"
            /\ queue' = [queue EXCEPT ![c] = IF h \in have THEN @ ELSE @ \cup {h}]
    /\ UNCHANGED <<peers, tip, have, vq, cq, pool>>

(* a block buffer arrives for a fetch from c; ok = the honest block of that height *)
Fetched(c, h, ok) ==
    /\ IF Unknown(c) THEN out' = "ignored" /\ UNCHANGED <<queue, vq>>
       ELSE /\ out' = "handled"
            /\ queue' = [queue EXCEPT ![c] = @ \ {h}]
            /\ vq' = Append(vq, [kind |-> "block", conn |-> c, h |-> h, ok |-> ok])
    /\ UNCHANGED <<peers, used, tip, have, cq, pool>>

FetchFailed(c, h) ==
    /\ out' = "handled"
    /\ UNCHANGED <<peers, used, tip, have, queue, vq, cq, pool>>    \* the entry stays for a retry

Tx(c, id, ok) ==
    /\ IF Unknown(c) THEN out' = "ignored" /\ UNCHANGED <<used, vq>>
       ELSE IF Limited(c) THEN out' = "ratelimited" /\ UNCHANGED <<used, vq>>
       ELSE /\ Count(c) /\ out' = "handled"
            /\ vq' = Append(vq, [kind |-> "tx", conn |-> c, h |-> id, ok |-> ok])
    /\ UNCHANGED <<peers, tip, have, queue, cq, pool>>

(* anything else the node has to refuse: undecodable bytes (the sender is disconnected), a tag that *)
(* is not accepted, a request it does not serve to that peer                                        *)
Junk(c, undecodable) ==
    /\ IF Unknown(c) THEN out' = "ignored" /\ UNCHANGED <<peers, used, queue>>
       ELSE IF Limited(c) THEN out' = "ratelimited" /\ UNCHANGED <<peers, used, queue>>
       ELSE IF undecodable
            THEN /\ out' = "disconnected" /\ Count(c) /\ UNCHANGED <<peers, queue>>   \* the I/O layer is told to drop it
            ELSE /\ out' = "rejected" /\ Count(c) /\ UNCHANGED <<peers, queue>>
    /\ UNCHANGED <<tip, have, vq, cq, pool>>

RunVerify ==
    /\ vq # <<>>
    /\ LET x == Head(vq) IN
       /\ vq' = Tail(vq)
       /\ cq' = IF x.ok THEN Append(cq, x) ELSE cq      \* invalid items stop here
       /\ out' = "internal"
    /\ UNCHANGED <<peers, used, tip, have, queue, pool>>

RECURSIVE Climb(_, _)
Climb(t, hs) == IF t + 1 \in hs THEN Climb(t + 1, hs) ELSE t

RunConsensus ==
    /\ cq # <<>>
    /\ LET x == Head(cq) IN
       /\ cq' = Tail(cq)
       /\ IF x.kind = "tx"
          THEN pool' = pool \cup {x.h} /\ UNCHANGED <<tip, have>>
          ELSE /\ have' = have \cup {x.h}
               /\ tip' = Climb(tip, have \cup {x.h})     \* orphans wait for their parent
               /\ pool' = pool
       /\ out' = "internal"
    /\ UNCHANGED <<peers, used, queue, vq>>

Tick ==       \* the rate window rolls over
    /\ used' = [c \in Conns |-> 0]
    /\ out' = "internal"
    /\ UNCHANGED <<peers, tip, have, queue, vq, cq, pool>>

(* ---- who does what ------------------------------------------------------------------ *)
HonestStep ==
    \/ \E c \in Honest : Open(c) \/ Auth(c)
    \/ \E c \in Honest, h \in 1..MaxH : peers[c] = "auth" /\ Announce(c, h)
    \/ \E c \in Honest, h \in 1..MaxH : h \in queue[c] /\ Fetched(c, h, TRUE)
    \/ \E c \in Honest, id \in TxIds : peers[c] = "auth" /\ Tx(c, id, TRUE)

HostileStep ==
    \/ \E c \in Hostile : Open(c) \/ Close(c) \/ Auth(c)
    \/ \E c \in Hostile, h \in (MaxH + 1)..(MaxH + 2) : Announce(c, h)     \* blocks nobody has
    \/ \E c \in Hostile, h \in 1..(MaxH + 2) : Fetched(c, h, FALSE) \/ FetchFailed(c, h)
    \/ \E c \in Hostile, id \in TxIds : Tx(c, id, FALSE)
    \/ \E c \in Hostile, u \in BOOLEAN : Junk(c, u)

Internal == RunVerify \/ RunConsensus \/ Tick

Next == HonestStep \/ HostileStep \/ Internal
Spec == Init /\ [][Next]_vars
FairSpec == Spec /\ WF_vars(RunVerify) /\ WF_vars(RunConsensus)
              /\ \A c1 \in Honest : WF_vars(Open(c1)) /\ WF_vars(Auth(c1))
              /\ \A c2 \in Honest, h \in 1..MaxH : WF_vars(peers[c2] = "auth" /\ Announce(c2, h))
                                                   /\ WF_vars(h \in queue[c2] /\ Fetched(c2, h, TRUE))

(* ---- properties ---------------------------------------------------------------------- *)
HonestView == <<tip, pool, [c \in Honest |-> peers[c]], [c \in Honest |-> queue[c]]>>

(* hostile input never changes what honest peers observe; neither does processing what it left behind *)
HostileItem(x) == x.conn \in Hostile
NonInterference ==
    [][(HostileStep => HonestView' = HonestView)
       /\ ((RunVerify /\ HostileItem(Head(vq))) => HonestView' = HonestView)]_vars

NoCrashOutcome == out \in Outcomes
TipMonotone == [][tip' >= tip]_vars
PoolOnlyAcceptable == \A x \in pool : x \in TxIds
OnlyValidReachesConsensus == \A i \in DOMAIN cq : cq[i].ok
SyncCompletes == <>(tip = MaxH)
=============================================================================
