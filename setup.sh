#!/bin/sh
# Build the harness offline against /repo's working tree (hooks on). Idempotent.
set -e
cd "$(dirname "$0")/harness"
[ -f Cargo.lock ] || cp /repo/Cargo.lock Cargo.lock
CARGO_NET_OFFLINE=true cargo build --offline --bins 2>&1 | tail -3
